package rig

import (
	"strconv"
	"pgregory.net/rapid"
	"verif.local/vstat"
)

func genSize(t *rapid.T, label string) int64 {
	switch rapid.IntRange(0, 9).Draw(t, label+"class") {
	case 0:
		return 0
	case 1:
		return int64(rapid.SampledFrom([]int{1, 1399, 1400, 1401, 65536}).Draw(t, label))
	case 2:
		if vstat.Thorough() {
			return int64(rapid.SampledFrom([]int{1 << 20, 2 << 20, 4 << 20}).Draw(t, label+"big"))
		}
		return int64(rapid.SampledFrom([]int{256 << 10, 1 << 20}).Draw(t, label+"big"))
	default:
		return int64(rapid.IntRange(1, 200000).Draw(t, label))
	}
}

var longGapsQuick int
var bulkGapQuick int

// LongOutages: outages of 35 s / 62 s between carriers are generated (C01 only: C05 and C18 claim
// continuity only for gaps below the server's one-minute retention).
var LongOutages bool

// GenPreamble: most carriers send token and ClientID as one message each; some cut the 16 bytes elsewhere.
func GenPreamble(t *rapid.T) string {
	switch rapid.IntRange(0, 7).Draw(t, "preamble") {
	case 0:
		return "coalesced"
	case 1:
		return "split:" + strconv.Itoa(rapid.IntRange(1, 15).Draw(t, "preamblecut"))
	case 2:
		return "bytewise"
	}
	return ""
}

func GenCarrier(t *rapid.T, maxBytes int64) Carrier {
	c := Carrier{}
	c.Mode = rapid.SampledFrom([]string{"reset", "close", "close", "freeze"}).Draw(t, "mode")
	if c.Mode == "freeze" {
		c.FreezeMs = rapid.SampledFrom([]int{5, 50, 300, 1500}).Draw(t, "freeze")
	}
	c.DialDelayMs = rapid.SampledFrom([]int{0, 0, 0, 5, 50, 400}).Draw(t, "dialdelay")
	if vstat.Thorough() && rapid.IntRange(0, 15).Draw(t, "longgap") == 0 {
		// an idle gap between carriers: long but below the server's one-minute queue retention, or beyond
		// it (35 s and 62 s also span whole 30-second periods of any timer on either side)
		gaps := []int{3000, 12000, 25000}
		if LongOutages {
			gaps = append(gaps, 35000, 62000)
		}
		c.DialDelayMs = rapid.SampledFrom(gaps).Draw(t, "gap")
	}
	c.DialFailures = rapid.SampledFrom([]int{0, 0, 0, 1, 3}).Draw(t, "dialfail")
	c.Preamble = GenPreamble(t)
	pos := func(label string) int64 {
		switch rapid.IntRange(0, 5).Draw(t, label+"class") {
		case 0:
			// inside the WebSocket handshake / token / ClientID / first length prefix
			return int64(rapid.IntRange(1, 400).Draw(t, label+"early"))
		case 1:
			return int64(rapid.IntRange(1, 3000).Draw(t, label+"small"))
		default:
			if maxBytes < 2 {
				return 1
			}
			return rapid.Int64Range(1, maxBytes+maxBytes/8+2000).Draw(t, label)
		}
	}
	switch rapid.IntRange(0, 3).Draw(t, "cutkind") {
	case 0:
		c.CutUpAfter = pos("cutup")
	case 1:
		c.CutDownAfter = pos("cutdown")
	case 2:
		c.CutAfterMs = rapid.SampledFrom([]int{1, 5, 20, 100, 400}).Draw(t, "cutms")
	default:
		c.CutUpAfter = pos("cutup")
		c.CutDownAfter = pos("cutdown")
	}
	return c
}

func GenSession(t *rapid.T, label uint64, maxFaults int) Session {
	s := Session{Label: label, UpSize: genSize(t, "up"), DownSize: genSize(t, "down")}
	if rapid.Bool().Draw(t, "upchunked") {
		s.UpChunk = rapid.SliceOfN(rapid.OneOf(rapid.IntRange(1, 100), rapid.IntRange(1, 70000)), 1, 3).Draw(t, "upchunk")
	}
	if rapid.Bool().Draw(t, "downchunked") {
		s.DownChunk = rapid.SliceOfN(rapid.OneOf(rapid.IntRange(1, 100), rapid.IntRange(1, 70000)), 1, 3).Draw(t, "downchunk")
	}
	if s.UpSize > 100000 {
		for i := range s.UpChunk {
			s.UpChunk[i] += 512
		}
	}
	if s.DownSize > 100000 {
		for i := range s.DownChunk {
			s.DownChunk[i] += 512
		}
	}
	if LongOutages && !vstat.Thorough() && vstat.Shard() == 0 && longGapsQuick == 0 && maxFaults > 0 {
		// quick tier: exactly one long outage per run, in one shard, in a session that is certain to reach it:
		// the first carrier is cut in the middle of the payload, the second one comes 62 s later
		longGapsQuick++
		s.UpSize, s.DownSize = 150000, 150000
		s.Carriers = []Carrier{{Mode: "close", CutUpAfter: int64(rapid.IntRange(3000, 60000).Draw(t, "longgapcut"))}, {DialDelayMs: 62000, Preamble: GenPreamble(t)}}
		return s
	}
	if maxFaults > 0 && (!vstat.Thorough() && vstat.Shard() == 1 && bulkGapQuick == 0 || vstat.Thorough() && rapid.IntRange(0, 24).Draw(t, "bulkgap") == 0) {
		// scenario family "gap under load": a multi-MiB download in steady state (the window full of
		// outstanding packets), the carrier cut in the middle, the next one a few seconds later - far below the
		// one-minute retention. Quick tier: exactly one per run.
		bulkGapQuick++
		s.UpSize, s.DownSize = 1000, int64(rapid.SampledFrom([]int{3 << 20, 5 << 20}).Draw(t, "bulkdown"))
		s.UpChunk, s.DownChunk = nil, nil
		s.Carriers = []Carrier{{Mode: rapid.SampledFrom([]string{"close", "reset"}).Draw(t, "bulkmode"), CutDownAfter: int64(rapid.IntRange(1<<20, 2<<20).Draw(t, "bulkcut"))},
			{DialDelayMs: rapid.SampledFrom([]int{1500, 3000}).Draw(t, "bulkdelay"), Preamble: GenPreamble(t)}}
		return s
	}
	nf := rapid.IntRange(0, maxFaults).Draw(t, "nfaults")
	max := s.UpSize
	if s.DownSize > max {
		max = s.DownSize
	}
	for i := 0; i < nf; i++ {
		s.Carriers = append(s.Carriers, GenCarrier(t, max))
	}
	s.Carriers = append(s.Carriers, Carrier{Preamble: GenPreamble(t)}) // the healthy one
	return s
}

