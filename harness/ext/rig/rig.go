// Package rig is the in-process transport rig of C01 (tier 1), C05 and C18 (c):
// the real snowflake_server.Transport on a loopback port, model clients assembled
// only from real components (RedialPacketConn, encapsulation, websocketconn,
// gorilla/websocket, kcp-go, smux configured as client/lib does), and between them
// a TCP forwarder that implements the generated carrier faults.
package rig

import (
	"bufio"
	"context"
	"encoding/binary"
	"errors"
	"fmt"
	"io"
	"net"
	"net/url"
	"os"
	"strconv"
	"strings"
	"sync"
	"sync/atomic"
	"time"
	"verif.local/vstat"

	"git.torproject.org/pluggable-transports/snowflake.git/v2/common/encapsulation"
	"git.torproject.org/pluggable-transports/snowflake.git/v2/common/turbotunnel"
	"git.torproject.org/pluggable-transports/snowflake.git/v2/common/websocketconn"
	snowflake_server "git.torproject.org/pluggable-transports/snowflake.git/v2/server/lib"
	"github.com/gorilla/websocket"
	"github.com/xtaci/kcp-go/v5"
	"github.com/xtaci/smux"
)

// ---------------------------------------------------------------------------
// deterministic byte streams

// Stream is the PRNG byte stream of (seed): position-addressable.
type Stream struct{ Seed uint64 }

func (s Stream) At(off int64) byte {
	// splitmix64 of the 8-byte block index, byte selected within
	x := s.Seed + uint64(off>>3)*0x9E3779B97F4A7C15
	x ^= x >> 30
	x *= 0xBF58476D1CE4E5B9
	x ^= x >> 27
	x *= 0x94D049BB133111EB
	x ^= x >> 31
	return byte(x >> (8 * uint(off&7)))
}

func (s Stream) Fill(p []byte, off int64) {
	for i := range p {
		p[i] = s.At(off + int64(i))
	}
}

// Verify compares p with the stream at off; returns the index of the first wrong byte or -1.
func (s Stream) Verify(p []byte, off int64) int {
	for i := range p {
		if p[i] != s.At(off+int64(i)) {
			return i
		}
	}
	return -1
}

// ---------------------------------------------------------------------------
// specs (all JSON-serialisable: they are the replay file)

// Carrier describes one carrier of a session and how it ends.
type Carrier struct {
	DialDelayMs  int    `json:"dialdelay_ms,omitempty"`
	DialFailures int    `json:"dialfail,omitempty"` // the dial fails this many times before it succeeds (each retried by the model client's dial function)
	CutUpAfter   int64  `json:"cutup,omitempty"`    // cut after this many upstream bytes passed the forwarder (0 = no such cut)
	CutDownAfter int64  `json:"cutdown,omitempty"`  // cut after this many downstream bytes (0 = none)
	CutAfterMs   int    `json:"cutms,omitempty"`    // cut after this long (0 = none)
	Mode         string `json:"mode,omitempty"`     // reset | close | freeze (client side is closed at once, server side kept open FreezeMs longer)
	FreezeMs     int    `json:"freeze_ms,omitempty"`
	ClientIP     string `json:"client_ip,omitempty"`
	NoClientIP   bool   `json:"no_client_ip,omitempty"`
	// Preamble: how the 8-byte token and the 8-byte ClientID are cut into WebSocket messages (the carrier
	// is a byte stream: message boundaries carry no meaning). "" = one message each; coalesced = one
	// 16-byte message; split:<k> = the 16 bytes cut after byte k (1..15); bytewise = sixteen messages
	Preamble string `json:"preamble,omitempty"`
}

// Session is one model client.
type Session struct {
	Label        uint64    `json:"label"`
	UpSize       int64     `json:"up"`
	DownSize     int64     `json:"down"`
	UpChunk      []int     `json:"upchunk,omitempty"`   // cyclic write sizes of the application on the client side
	DownChunk    []int     `json:"downchunk,omitempty"` // cyclic write sizes of the bridge side
	Carriers     []Carrier `json:"carriers"`            // the last one is healthy (its cut fields are ignored)
	StartDelayMs int       `json:"start_ms,omitempty"`
	// LateStream: once both directions are complete the model client opens a second smux stream
	// on the same session (a second accepted connection of the same session on the server)
	LateStream bool `json:"late_stream,omitempty"`
}

// lateMask distinguishes the label written on the late stream of a session.
const lateMask = 0x0040000000000000

// ---------------------------------------------------------------------------
// server side

type sessState struct {
	spec     *Session
	upGot    int64
	downSent int64
	accepted int32
	remote   []string
	err      atomic.Value  // string
	done     chan struct{} // closed when the server side has read everything and written everything
}

// Rig is one listener shared by all cases of a process.
type Rig struct {
	Addr     string
	ln       *snowflake_server.SnowflakeListener
	mu       sync.Mutex
	sessions map[uint64]*sessState
	Unknown  int64 // accepted connections whose label is not registered
	progress int64 // bumped whenever any byte is verified anywhere
}

var (
	theRig  *Rig
	rigOnce sync.Once
	rigErr  error
)

// Get starts (once per process) the server under test.
func Get() (*Rig, error) {
	rigOnce.Do(func() {
		// The port is picked by listen-and-close and bound again by the server a moment later; under load
		// another process can take it in between. Listen() reports a bind error only if it arrives within
		// 100 ms, and a connect test would then succeed against the foreign listener (seen once in a quick
		// run on a busy machine: every carrier of the shard went to somebody else's port and the case was
		// reported as a stall). So: the listening socket must belong to this process, else try another port.
		var r *Rig
		for try := 0; try < 8 && r == nil; try++ {
			l, err := net.Listen("tcp", "127.0.0.1:0")
			if err != nil {
				rigErr = err
				return
			}
			addr := l.Addr().(*net.TCPAddr)
			l.Close()
			tr := snowflake_server.NewSnowflakeServer(nil)
			ln, err := tr.Listen(addr)
			if err != nil {
				rigErr = err
				continue
			}
			if !vstat.WaitListener(os.Getpid(), addr.Port, 10*time.Second) {
				rigErr = fmt.Errorf("port %d was taken by another process before the server bound it", addr.Port)
				ln.Close()
				continue
			}
			rigErr = nil
			r = &Rig{Addr: addr.String(), ln: ln, sessions: map[uint64]*sessState{}}
		}
		if r == nil {
			return
		}
		go r.acceptLoop()
		theRig = r
	})
	return theRig, rigErr
}

func (r *Rig) acceptLoop() {
	for {
		conn, err := r.ln.Accept()
		if err != nil {
			return
		}
		go r.serve(conn)
	}
}

func (st *sessState) fail(format string, a ...any) {
	if st.err.Load() == nil {
		st.err.Store(fmt.Sprintf(format, a...))
	}
}

// ServeConn is the bridge side for a connection obtained elsewhere (the ORPort of the real
// server binary in the all-binaries mode of the whole-system tier). The remote address the
// server reports is not visible on an ORPort connection.
func (r *Rig) ServeConn(conn net.Conn) { r.serve(conn) }

func (r *Rig) serve(conn net.Conn) {
	defer conn.Close()
	var lb [8]byte
	if _, err := io.ReadFull(conn, lb[:]); err != nil {
		atomic.AddInt64(&r.Unknown, 1)
		return
	}
	label := binary.BigEndian.Uint64(lb[:])
	r.mu.Lock()
	st := r.sessions[label]
	r.mu.Unlock()
	if st == nil {
		atomic.AddInt64(&r.Unknown, 1)
		return
	}
	// the remote address is recorded BEFORE the connection is counted as accepted: the client side
	// of the rig reads st.remote as soon as it sees accepted > 0
	ra := "<nil>"
	if a := conn.RemoteAddr(); a != nil {
		ra = a.String()
	}
	r.mu.Lock()
	st.remote = append(st.remote, ra)
	r.mu.Unlock()
	if atomic.AddInt32(&st.accepted, 1) > 1 {
		st.fail("session %016x surfaced as more than one accepted connection", label)
	}
	var wg sync.WaitGroup
	wg.Add(2)
	go func() { // upstream: verify
		defer wg.Done()
		up := Stream{label ^ 0xA5A5A5A5}
		buf := make([]byte, 32*1024)
		for atomic.LoadInt64(&st.upGot) < st.spec.UpSize {
			n, err := conn.Read(buf)
			if n > 0 {
				off := atomic.LoadInt64(&st.upGot)
				if off+int64(n) > st.spec.UpSize {
					st.fail("bridge side of session %016x read %d bytes beyond the %d the client wrote", label, off+int64(n)-st.spec.UpSize, st.spec.UpSize)
					return
				}
				if i := up.Verify(buf[:n], off); i >= 0 {
					st.fail("bridge side of session %016x: byte at upstream offset %d is %#02x, the client wrote %#02x (missing, duplicated, reordered or foreign bytes)", label, off+int64(i), buf[i], up.At(off+int64(i)))
					return
				}
				atomic.AddInt64(&st.upGot, int64(n))
				atomic.AddInt64(&r.progress, 1)
			}
			if err != nil {
				return
			}
		}
	}()
	go func() { // downstream: write
		defer wg.Done()
		down := Stream{label ^ 0x5A5A5A5A}
		var off int64
		k := 0
		buf := make([]byte, 64*1024)
		for off < st.spec.DownSize {
			n := int64(len(buf))
			if len(st.spec.DownChunk) > 0 {
				if m := int64(st.spec.DownChunk[k%len(st.spec.DownChunk)]); m < n && m > 0 {
					n = m
				}
				k++
			}
			if off+n > st.spec.DownSize {
				n = st.spec.DownSize - off
			}
			down.Fill(buf[:n], off)
			w, err := conn.Write(buf[:n])
			off += int64(w)
			atomic.StoreInt64(&st.downSent, off)
			if err != nil {
				return
			}
		}
	}()
	wg.Wait()
	if atomic.LoadInt64(&st.upGot) == st.spec.UpSize && atomic.LoadInt64(&st.downSent) == st.spec.DownSize {
		// wait for the client to finish reading before closing the stream
		select {
		case <-st.done:
		case <-time.After(120 * time.Second):
		}
	}
}

// ---------------------------------------------------------------------------
// forwarder: one per carrier

type forwarder struct {
	spec    Carrier
	client  net.Conn // accepted from the model client
	server  net.Conn
	up, dn  int64
	cutOnce sync.Once
	cutAt   atomic.Value // time.Time
}

func (f *forwarder) cut() {
	f.cutOnce.Do(func() {
		f.cutAt.Store(time.Now())
		switch f.spec.Mode {
		case "reset":
			if tc, ok := f.client.(*net.TCPConn); ok {
				tc.SetLinger(0)
			}
			if tc, ok := f.server.(*net.TCPConn); ok {
				tc.SetLinger(0)
			}
			f.client.Close()
			f.server.Close()
		case "freeze":
			// the client learns at once, the server keeps a dead carrier for a while
			f.client.Close()
			d := time.Duration(f.spec.FreezeMs) * time.Millisecond
			time.AfterFunc(d, func() { f.server.Close() })
		default:
			f.client.Close()
			f.server.Close()
		}
	})
}

func (f *forwarder) pump(dst, src net.Conn, counter *int64, limit int64) {
	buf := make([]byte, 16*1024)
	for {
		n, err := src.Read(buf)
		if n > 0 {
			if limit > 0 {
				left := limit - atomic.LoadInt64(counter)
				if int64(n) >= left {
					if left > 0 {
						dst.Write(buf[:left])
						atomic.AddInt64(counter, left)
					}
					f.cut()
					return
				}
			}
			if _, werr := dst.Write(buf[:n]); werr != nil {
				f.cut()
				return
			}
			atomic.AddInt64(counter, int64(n))
		}
		if err != nil {
			// one side went away on its own: take the other down too (a dead TCP connection)
			f.cutOnce.Do(func() { f.client.Close(); f.server.Close() })
			return
		}
	}
}

// ---------------------------------------------------------------------------
// model client

type encapConn struct {
	io.ReadWriteCloser
	bw *bufio.Writer
	// packet-level isolation: every downstream packet on this carrier must belong to the
	// KCP conversation of the session that presented the ClientID
	conv    func() (uint32, bool)
	foreign func(got uint32)
}

type dummyAddr struct{}

func (dummyAddr) Network() string { return "dummy" }
func (dummyAddr) String() string  { return "dummy" }

func (c *encapConn) ReadFrom(p []byte) (int, net.Addr, error) {
	data, err := encapsulation.ReadData(c.ReadWriteCloser)
	if err != nil {
		return 0, dummyAddr{}, err
	}
	if c.conv != nil && len(data) >= 24 {
		if want, ok := c.conv(); ok {
			if got := binary.LittleEndian.Uint32(data[:4]); got != want {
				c.foreign(got)
			}
		}
	}
	return copy(p, data), dummyAddr{}, nil
}

func (c *encapConn) WriteTo(p []byte, _ net.Addr) (int, error) {
	_, err := encapsulation.WriteData(c.bw, p)
	if err == nil {
		err = c.bw.Flush()
	}
	if err != nil {
		return 0, err
	}
	return len(p), nil
}

func (c *encapConn) LocalAddr() net.Addr                { return dummyAddr{} }
func (c *encapConn) SetDeadline(t time.Time) error      { return errors.New("not implemented") }
func (c *encapConn) SetReadDeadline(t time.Time) error  { return errors.New("not implemented") }
func (c *encapConn) SetWriteDeadline(t time.Time) error { return errors.New("not implemented") }

// Result of one session.
type Result struct {
	Label           uint64
	Err             string // first violation observed on either side ("" = none)
	UpDone          bool
	DownDone        bool
	UpGot           int64
	DownGot         int64
	Accepted        int
	Remote          []string
	Carriers        int // carriers actually dialled
	CutsWithUnacked int
	Stalled         bool
	FirstIP         string
	LateOpened      bool     // the late stream was opened
	LateRemote      []string // remote address reported for the late stream's accepted connection
}

// dialOne establishes carrier number i of the session through a fresh forwarder.
func (r *Rig) dialOne(ctx context.Context, s *Session, id turbotunnel.ClientID, spec Carrier, cuts *int64, inflight func() bool, conv func() (uint32, bool), foreign func(uint32)) (net.PacketConn, error) {
	// forwarder listener
	fl, err := net.Listen("tcp", "127.0.0.1:0")
	if err != nil {
		return nil, err
	}
	defer fl.Close()
	f := &forwarder{spec: spec}
	accepted := make(chan error, 1)
	go func() {
		c, err := fl.Accept()
		if err != nil {
			accepted <- err
			return
		}
		sc, err := net.Dial("tcp", r.Addr)
		if err != nil {
			c.Close()
			accepted <- err
			return
		}
		f.client, f.server = c, sc
		accepted <- nil
		go f.pump(sc, c, &f.up, spec.CutUpAfter)
		go f.pump(c, sc, &f.dn, spec.CutDownAfter)
		if spec.CutAfterMs > 0 {
			time.AfterFunc(time.Duration(spec.CutAfterMs)*time.Millisecond, f.cut)
		}
		go func() {
			// account a cut that happened while data was unacknowledged
			for {
				time.Sleep(5 * time.Millisecond)
				if f.cutAt.Load() != nil {
					if inflight() {
						atomic.AddInt64(cuts, 1)
					}
					return
				}
				select {
				case <-ctx.Done():
					return
				default:
				}
			}
		}()
	}()
	u := url.URL{Scheme: "ws", Host: fl.Addr().String(), Path: "/"}
	if !spec.NoClientIP {
		q := u.Query()
		q.Set("client_ip", spec.ClientIP)
		u.RawQuery = q.Encode()
	}
	d := websocket.Dialer{HandshakeTimeout: 10 * time.Second}
	ws, _, err := d.DialContext(ctx, u.String(), nil)
	if err != nil {
		return nil, err
	}
	if err := <-accepted; err != nil {
		ws.Close()
		return nil, err
	}
	conn := websocketconn.New(ws)
	pre := append(append([]byte{}, turbotunnel.Token[:]...), id[:]...)
	var preCuts []int
	switch {
	case spec.Preamble == "coalesced":
		preCuts = nil
	case spec.Preamble == "bytewise":
		for k := 1; k < 16; k++ {
			preCuts = append(preCuts, k)
		}
	case strings.HasPrefix(spec.Preamble, "split:"):
		if k, err := strconv.Atoi(strings.TrimPrefix(spec.Preamble, "split:")); err == nil && k > 0 && k < 16 {
			preCuts = []int{k}
		}
	default:
		preCuts = []int{8}
	}
	prev := 0
	for _, k := range append(preCuts, 16) {
		if _, err := conn.Write(pre[prev:k]); err != nil {
			conn.Close()
			return nil, err
		}
		prev = k
	}
	return &encapConn{ReadWriteCloser: conn, bw: bufio.NewWriter(conn), conv: conv, foreign: foreign}, nil
}

// Run executes one session to completion (or stall) and returns what was observed.
// budget is the stall budget: no verified byte anywhere in the session for this long.
func (r *Rig) Run(s *Session, budget time.Duration) *Result {
	res := &Result{Label: s.Label}
	// a scripted outage (dial delay) is not a stall: the stall clock allows for the longest one
	var longest time.Duration
	for _, cr := range s.Carriers {
		if d := time.Duration(cr.DialDelayMs) * time.Millisecond; d > longest {
			longest = d
		}
	}
	budget += longest
	st := &sessState{spec: s, done: make(chan struct{})}
	r.mu.Lock()
	r.sessions[s.Label] = st
	r.mu.Unlock()
	defer func() {
		r.mu.Lock()
		delete(r.sessions, s.Label)
		res.Remote = append([]string{}, st.remote...)
		r.mu.Unlock()
	}()
	if s.StartDelayMs > 0 {
		time.Sleep(time.Duration(s.StartDelayMs) * time.Millisecond)
	}
	var id turbotunnel.ClientID
	binary.BigEndian.PutUint64(id[:], s.Label)
	ctx, cancel := context.WithCancel(context.Background())
	defer cancel()
	var carrierNo int64
	var cuts int64
	var upSent, downGot int64
	var clientErr atomic.Value
	inflight := func() bool {
		return atomic.LoadInt64(&upSent) > atomic.LoadInt64(&st.upGot) || atomic.LoadInt64(&st.downSent) > atomic.LoadInt64(&downGot)
	}
	var convVal atomic.Value // uint32, set once the KCP conversation exists
	getConv := func() (uint32, bool) {
		v := convVal.Load()
		if v == nil {
			return 0, false
		}
		return v.(uint32), true
	}
	dialContext := func(dctx context.Context) (net.PacketConn, error) {
		for {
			select {
			case <-ctx.Done():
				return nil, ctx.Err()
			default:
			}
			i := int(atomic.AddInt64(&carrierNo, 1)) - 1
			spec := s.Carriers[len(s.Carriers)-1]
			last := true
			if i < len(s.Carriers)-1 {
				spec = s.Carriers[i]
				last = false
			}
			if last {
				spec.CutUpAfter, spec.CutDownAfter, spec.CutAfterMs, spec.DialFailures = 0, 0, 0, 0
			}
			if spec.DialDelayMs > 0 {
				select {
				case <-time.After(time.Duration(spec.DialDelayMs) * time.Millisecond):
				case <-ctx.Done():
					return nil, ctx.Err()
				}
			}
			for k := 0; k < spec.DialFailures; k++ {
				time.Sleep(5 * time.Millisecond) // a failed attempt; the dial function retries, as the proxy pool does
			}
			pc, err := r.dialOne(ctx, s, id, spec, &cuts, inflight, getConv, func(got uint32) {
				want, _ := getConv()
				clientErr.CompareAndSwap(nil, fmt.Sprintf("a carrier of session %016x (KCP conversation %08x) was sent a downstream packet of conversation %08x: packets of different sessions are mixed", s.Label, want, got))
			})
			if err != nil {
				select {
				case <-ctx.Done():
					return nil, ctx.Err()
				default:
				}
				time.Sleep(20 * time.Millisecond)
				continue // environment hiccup: try again, never surface
			}
			return pc, nil
		}
	}
	pconn := turbotunnel.NewRedialPacketConn(dummyAddr{}, dummyAddr{}, dialContext)
	defer pconn.Close()
	conn, err := kcp.NewConn2(dummyAddr{}, nil, 0, 0, pconn)
	if err != nil {
		res.Err = "harness: " + err.Error()
		return res
	}
	defer conn.Close()
	convVal.Store(conn.GetConv())
	conn.SetStreamMode(true)
	conn.SetWindowSize(65535, 65535)
	conn.SetNoDelay(0, 0, 0, 1)
	cfg := smux.DefaultConfig()
	cfg.Version = 2
	cfg.KeepAliveTimeout = 10 * time.Minute
	cfg.MaxStreamBuffer = 1048576
	sess, err := smux.Client(conn, cfg)
	if err != nil {
		res.Err = "harness: " + err.Error()
		return res
	}
	defer sess.Close()
	stream, err := sess.OpenStream()
	if err != nil {
		res.Err = "harness: " + err.Error()
		return res
	}
	defer stream.Close()
	var wg sync.WaitGroup
	wg.Add(2)
	go func() { // upstream writer
		defer wg.Done()
		var lb [8]byte
		binary.BigEndian.PutUint64(lb[:], s.Label)
		if _, err := stream.Write(lb[:]); err != nil {
			return
		}
		up := Stream{s.Label ^ 0xA5A5A5A5}
		buf := make([]byte, 64*1024)
		var off int64
		k := 0
		for off < s.UpSize {
			n := int64(len(buf))
			if len(s.UpChunk) > 0 {
				if m := int64(s.UpChunk[k%len(s.UpChunk)]); m < n && m > 0 {
					n = m
				}
				k++
			}
			if off+n > s.UpSize {
				n = s.UpSize - off
			}
			up.Fill(buf[:n], off)
			w, err := stream.Write(buf[:n])
			off += int64(w)
			atomic.StoreInt64(&upSent, off)
			if err != nil {
				return
			}
		}
	}()
	go func() { // downstream reader: verify
		defer wg.Done()
		down := Stream{s.Label ^ 0x5A5A5A5A}
		buf := make([]byte, 32*1024)
		for atomic.LoadInt64(&downGot) < s.DownSize {
			n, err := stream.Read(buf)
			if n > 0 {
				off := atomic.LoadInt64(&downGot)
				if off+int64(n) > s.DownSize {
					clientErr.Store(fmt.Sprintf("client side of session %016x read %d bytes beyond the %d the bridge wrote", s.Label, off+int64(n)-s.DownSize, s.DownSize))
					return
				}
				if i := down.Verify(buf[:n], off); i >= 0 {
					clientErr.Store(fmt.Sprintf("client side of session %016x: byte at downstream offset %d is %#02x, the bridge wrote %#02x (missing, duplicated, reordered or foreign bytes)", s.Label, off+int64(i), buf[i], down.At(off+int64(i))))
					return
				}
				atomic.AddInt64(&downGot, int64(n))
				atomic.AddInt64(&r.progress, 1)
			}
			if err != nil {
				return
			}
		}
	}()
	finished := make(chan struct{})
	go func() { wg.Wait(); close(finished) }()
	// completion / stall supervision
	lastProgress := time.Now()
	lastSeen := int64(-1)
	complete := func() bool {
		return atomic.LoadInt64(&st.upGot) == s.UpSize && atomic.LoadInt64(&downGot) == s.DownSize && (s.UpSize+s.DownSize == 0 || atomic.LoadInt32(&st.accepted) > 0)
	}
	for {
		if e := st.err.Load(); e != nil {
			res.Err = e.(string)
			break
		}
		if e := clientErr.Load(); e != nil {
			res.Err = e.(string)
			break
		}
		if complete() {
			break
		}
		// progress = verified bytes, plus the scripted carrier changes (further redials of the healthy last
		// carrier are churn, not progress: a server that drops every carrier at once must not look alive)
		cn := atomic.LoadInt64(&carrierNo)
		if max := int64(len(s.Carriers)); cn > max {
			cn = max
		}
		cur := atomic.LoadInt64(&st.upGot) + atomic.LoadInt64(&downGot) + cn<<40
		if cur != lastSeen {
			lastSeen = cur
			lastProgress = time.Now()
		} else if time.Since(lastProgress) > budget {
			res.Stalled = true
			break
		}
		time.Sleep(2 * time.Millisecond)
	}
	// label-only sessions (no payload) still must be accepted
	if res.Err == "" && !res.Stalled && s.UpSize+s.DownSize == 0 {
		deadline := time.Now().Add(budget)
		for atomic.LoadInt32(&st.accepted) == 0 && time.Now().Before(deadline) {
			time.Sleep(2 * time.Millisecond)
		}
		if atomic.LoadInt32(&st.accepted) == 0 {
			res.Stalled = true
		}
	}
	if s.LateStream && res.Err == "" && !res.Stalled {
		late := &sessState{spec: &Session{Label: s.Label ^ lateMask}, done: make(chan struct{})}
		r.mu.Lock()
		r.sessions[s.Label^lateMask] = late
		r.mu.Unlock()
		if st2, err := sess.OpenStream(); err == nil {
			var lb [8]byte
			binary.BigEndian.PutUint64(lb[:], s.Label^lateMask)
			st2.Write(lb[:])
			deadline := time.Now().Add(budget)
			for time.Now().Before(deadline) {
				r.mu.Lock()
				res.LateRemote = append([]string{}, late.remote...)
				r.mu.Unlock()
				if len(res.LateRemote) > 0 {
					break
				}
				time.Sleep(2 * time.Millisecond)
			}
			res.LateOpened = true
			close(late.done)
			st2.Close()
		}
		r.mu.Lock()
		delete(r.sessions, s.Label^lateMask)
		r.mu.Unlock()
	}
	close(st.done)
	res.UpGot, res.DownGot = atomic.LoadInt64(&st.upGot), atomic.LoadInt64(&downGot)
	res.UpDone, res.DownDone = res.UpGot == s.UpSize, res.DownGot == s.DownSize
	res.Accepted = int(atomic.LoadInt32(&st.accepted))
	res.Carriers = int(atomic.LoadInt64(&carrierNo))
	res.CutsWithUnacked = int(atomic.LoadInt64(&cuts))
	if e := st.err.Load(); e != nil && res.Err == "" {
		res.Err = e.(string)
	}
	cancel()
	stream.Close()
	sess.Close()
	conn.Close()
	pconn.Close()
	select {
	case <-finished:
	case <-time.After(5 * time.Second):
	}
	return res
}

// Decoy opens a carrier that must not produce a connection and reports whether the
// server closed it (true) within the wait.
func (r *Rig) Decoy(kind string, wait time.Duration) (closedByServer bool, err error) {
	u := url.URL{Scheme: "ws", Host: r.Addr, Path: "/", RawQuery: "client_ip=198.51.100.77"}
	ws, _, err := websocket.DefaultDialer.Dial(u.String(), nil)
	if err != nil {
		return false, err
	}
	defer ws.Close()
	var payload []byte
	switch kind {
	case "no-token":
		payload = []byte("GET / HTTP/1.1\r\n\r\n0123456789")
	case "wrong-token":
		payload = append([]byte{0x12, 0x93, 0x60, 0x5d, 0x27, 0x81, 0x75, 0xf4}, make([]byte, 64)...)
	case "short-token":
		payload = turbotunnel.Token[:5]
	case "truncated-clientid":
		payload = append(append([]byte{}, turbotunnel.Token[:]...), 1, 2, 3)
	case "token-id-garbage":
		payload = append(append(append([]byte{}, turbotunnel.Token[:]...), 9, 9, 9, 9, 9, 9, 9, 9), 0xff, 0xff, 0xff, 0xff, 0x41, 0x41)
	case "token-id-only":
		payload = append(append([]byte{}, turbotunnel.Token[:]...), 7, 7, 7, 7, 7, 7, 7, 7)
	}
	if err := ws.WriteMessage(websocket.BinaryMessage, payload); err != nil {
		return false, err
	}
	if kind == "short-token" || kind == "truncated-clientid" || kind == "token-id-only" {
		// these wait for more input: half-close by sending a close frame
		ws.WriteControl(websocket.CloseMessage, websocket.FormatCloseMessage(websocket.CloseNormalClosure, ""), time.Now().Add(time.Second))
	}
	ws.SetReadDeadline(time.Now().Add(wait))
	for {
		_, _, err := ws.ReadMessage()
		if err != nil {
			var ne net.Error
			if errors.As(err, &ne) && ne.Timeout() {
				return false, nil
			}
			return true, nil
		}
	}
}

// Progress returns a counter that moves whenever any session verifies bytes.
func (r *Rig) Progress() int64 { return atomic.LoadInt64(&r.progress) }

// Drive runs one session over a stream obtained elsewhere (the real client library in the
// whole-system tier): the same byte-exact oracle on both ends, the same stall supervision.
// extra() is added to the progress measure (e.g. number of proxies started) so that the
// stall clock restarts when the environment changes.
func (r *Rig) Drive(s *Session, stream io.ReadWriteCloser, budget time.Duration, extra func() int64) *Result {
	res := &Result{Label: s.Label}
	st := &sessState{spec: s, done: make(chan struct{})}
	r.mu.Lock()
	r.sessions[s.Label] = st
	r.mu.Unlock()
	defer func() {
		r.mu.Lock()
		delete(r.sessions, s.Label)
		res.Remote = append([]string{}, st.remote...)
		r.mu.Unlock()
	}()
	var upSent, downGot int64
	var clientErr atomic.Value
	var wg sync.WaitGroup
	wg.Add(2)
	go func() {
		defer wg.Done()
		var lb [8]byte
		binary.BigEndian.PutUint64(lb[:], s.Label)
		if _, err := stream.Write(lb[:]); err != nil {
			return
		}
		up := Stream{s.Label ^ 0xA5A5A5A5}
		buf := make([]byte, 64*1024)
		var off int64
		k := 0
		for off < s.UpSize {
			n := int64(len(buf))
			if len(s.UpChunk) > 0 {
				if m := int64(s.UpChunk[k%len(s.UpChunk)]); m < n && m > 0 {
					n = m
				}
				k++
			}
			if off+n > s.UpSize {
				n = s.UpSize - off
			}
			up.Fill(buf[:n], off)
			w, err := stream.Write(buf[:n])
			off += int64(w)
			atomic.StoreInt64(&upSent, off)
			if err != nil {
				return
			}
		}
	}()
	go func() {
		defer wg.Done()
		down := Stream{s.Label ^ 0x5A5A5A5A}
		buf := make([]byte, 32*1024)
		for atomic.LoadInt64(&downGot) < s.DownSize {
			n, err := stream.Read(buf)
			if n > 0 {
				off := atomic.LoadInt64(&downGot)
				if off+int64(n) > s.DownSize {
					clientErr.Store(fmt.Sprintf("client side of session %016x read %d bytes beyond the %d the bridge wrote", s.Label, off+int64(n)-s.DownSize, s.DownSize))
					return
				}
				if i := down.Verify(buf[:n], off); i >= 0 {
					clientErr.Store(fmt.Sprintf("client side of session %016x: byte at downstream offset %d is %#02x, the bridge wrote %#02x (missing, duplicated, reordered or foreign bytes)", s.Label, off+int64(i), buf[i], down.At(off+int64(i))))
					return
				}
				atomic.AddInt64(&downGot, int64(n))
			}
			if err != nil {
				return
			}
		}
	}()
	lastProgress := time.Now()
	lastSeen := int64(-1)
	for {
		if e := st.err.Load(); e != nil {
			res.Err = e.(string)
			break
		}
		if e := clientErr.Load(); e != nil {
			res.Err = e.(string)
			break
		}
		if atomic.LoadInt64(&st.upGot) == s.UpSize && atomic.LoadInt64(&downGot) == s.DownSize && atomic.LoadInt32(&st.accepted) > 0 {
			break
		}
		cur := atomic.LoadInt64(&st.upGot) + atomic.LoadInt64(&downGot)
		if extra != nil {
			cur += extra() << 40
		}
		if cur != lastSeen {
			lastSeen = cur
			lastProgress = time.Now()
		} else if time.Since(lastProgress) > budget {
			res.Stalled = true
			break
		}
		time.Sleep(5 * time.Millisecond)
	}
	close(st.done)
	res.UpGot, res.DownGot = atomic.LoadInt64(&st.upGot), atomic.LoadInt64(&downGot)
	res.UpDone, res.DownDone = res.UpGot == s.UpSize, res.DownGot == s.DownSize
	res.Accepted = int(atomic.LoadInt32(&st.accepted))
	if e := st.err.Load(); e != nil && res.Err == "" {
		res.Err = e.(string)
	}
	stream.Close()
	done := make(chan struct{})
	go func() { wg.Wait(); close(done) }()
	select {
	case <-done:
	case <-time.After(5 * time.Second):
	}
	return res
}

// Unacked reports for the whole-system tier whether data is in flight for label (written at
// one end, not yet verified at the other) - used to classify faults.
func (r *Rig) UpGot(label uint64) int64 {
	r.mu.Lock()
	defer r.mu.Unlock()
	if st := r.sessions[label]; st != nil {
		return atomic.LoadInt64(&st.upGot)
	}
	return -1
}
