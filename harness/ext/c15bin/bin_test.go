// C15 (c) binary level (thorough): the unmodified client BINARY as a managed pluggable
// transport, started with generated -ice values and SOCKS arguments against a broker that
// never hands out a proxy: it must stay alive through several failing rendezvous attempts,
// stop polling the broker once the SOCKS connection is closed, and exit on SIGTERM.
package c15bin

import (
	"bufio"
	"fmt"
	"io"
	"net"
	"net/http"
	"os"
	"os/exec"
	"path/filepath"
	"strings"
	"sync/atomic"
	"syscall"
	"testing"
	"time"

	"pgregory.net/rapid"
	"verif.local/vstat"
)

type binCase struct {
	IceFlag   string `json:"iceflag"`   // value of -ice ("<absent>" = flag not given)
	IceArg    string `json:"icearg"`    // SOCKS arg ice= ("<absent>" = not sent)
	MaxArg    string `json:"maxarg"`    // SOCKS arg max= ("<absent>" = not sent)
	Broker    string `json:"broker"`    // how the broker refuses: noproxies | 503 | garbage | slow | reset
	HoldSec   int    `json:"holdsec"`   // how long the SOCKS connection stays open
	// SocksReset: the SOCKS client sends its CONNECT request and resets the TCP connection at once, before it
	// has read the reply (tor going away with unread data): the reply cannot be delivered
	SocksReset bool `json:"socksreset,omitempty"`
}

var clientBin string

func build() error {
	if clientBin != "" {
		return nil
	}
	dir, err := os.MkdirTemp(os.Getenv("VERIF_OUT"), "c15bin")
	if err != nil {
		return err
	}
	out := filepath.Join(dir, "client")
	gobin := os.Getenv("VERIF_GO")
	if gobin == "" {
		gobin = "go"
	}
	repo := os.Getenv("VERIF_REPO")
	if repo == "" {
		repo = "/repo"
	}
	cmd := exec.Command(gobin, "build", "-ldflags=-checklinkname=0", "-o", out, "./client")
	cmd.Dir = repo
	cmd.Env = append(os.Environ(), "GOFLAGS=-mod=mod", "GOPROXY=off", "GOSUMDB=off", "GOTOOLCHAIN=local")
	if b, err := cmd.CombinedOutput(); err != nil {
		return fmt.Errorf("building client: %v\n%s", err, b)
	}
	clientBin = out
	return nil
}

func socksConnect(addr string, args string) (net.Conn, error) {
	c, err := net.DialTimeout("tcp", addr, 5*time.Second)
	if err != nil {
		return nil, err
	}
	c.SetDeadline(time.Now().Add(10 * time.Second))
	if args == "" {
		c.Write([]byte{5, 1, 0})
	} else {
		c.Write([]byte{5, 1, 2})
	}
	var r [2]byte
	if _, err := io.ReadFull(c, r[:]); err != nil {
		c.Close()
		return nil, fmt.Errorf("socks method reply: %v", err)
	}
	if r[1] == 2 {
		u := []byte(args)
		if len(u) > 255 {
			u = u[:255]
		}
		msg := append([]byte{1, byte(len(u))}, u...)
		msg = append(msg, 1, 0) // password: one NUL byte, as tor sends for short args
		c.Write(msg)
		if _, err := io.ReadFull(c, r[:]); err != nil || r[1] != 0 {
			c.Close()
			return nil, fmt.Errorf("socks auth reply: %v %v", r, err)
		}
	}
	c.Write([]byte{5, 1, 0, 1, 192, 0, 2, 99, 0, 80})
	var rep [10]byte
	if _, err := io.ReadFull(c, rep[:]); err != nil {
		c.Close()
		return nil, fmt.Errorf("socks connect reply: %v", err)
	}
	c.SetDeadline(time.Time{})
	if rep[1] != 0 {
		c.Close()
		return nil, fmt.Errorf("socks request rejected with code %d", rep[1])
	}
	return c, nil
}

func runBin(_ *testing.T, c binCase) error {
	if err := build(); err != nil {
		return fmt.Errorf("harness: %v", err)
	}
	var polls int64
	ln, err := net.Listen("tcp", "127.0.0.1:0")
	if err != nil {
		return fmt.Errorf("harness: %v", err)
	}
	defer ln.Close()
	srv := &http.Server{Handler: http.HandlerFunc(func(w http.ResponseWriter, r *http.Request) {
		atomic.AddInt64(&polls, 1)
		io.Copy(io.Discard, r.Body)
		switch c.Broker {
		case "503":
			w.WriteHeader(503)
		case "garbage":
			w.Write([]byte("<html>not json</html>"))
		case "slow":
			time.Sleep(3 * time.Second)
			w.Write([]byte(`{"error":"timed out waiting for answer!"}`))
		case "reset":
			if hj, ok := w.(http.Hijacker); ok {
				conn, _, _ := hj.Hijack()
				conn.Close()
			}
		default:
			w.Write([]byte(`{"error":"no snowflake proxies currently available"}`))
		}
	})}
	go srv.Serve(ln)
	defer srv.Close()

	dir, _ := os.MkdirTemp(os.Getenv("VERIF_OUT"), "ptstate")
	args := []string{"-url", "http://" + ln.Addr().String() + "/", "-log", filepath.Join(dir, "client.log")}
	if c.IceFlag != "<absent>" {
		args = append(args, "-ice", c.IceFlag)
	}
	cmd := exec.Command(clientBin, args...)
	cmd.Env = append(os.Environ(), "TOR_PT_MANAGED_TRANSPORT_VER=1", "TOR_PT_CLIENT_TRANSPORTS=snowflake", "TOR_PT_STATE_LOCATION="+dir)
	stdout, _ := cmd.StdoutPipe()
	stdin, _ := cmd.StdinPipe()
	defer stdin.Close()
	if err := cmd.Start(); err != nil {
		return fmt.Errorf("harness: %v", err)
	}
	exited := make(chan error, 1)
	go func() { exited <- cmd.Wait() }()
	defer func() {
		cmd.Process.Kill()
	}()
	socksAddr := ""
	sc := bufio.NewScanner(stdout)
	deadline := time.After(15 * time.Second)
	lines := make(chan string, 16)
	go func() {
		for sc.Scan() {
			lines <- sc.Text()
		}
		close(lines)
	}()
wait:
	for {
		select {
		case l, ok := <-lines:
			if !ok {
				return fmt.Errorf("harness: client binary ended before announcing its SOCKS port")
			}
			if strings.HasPrefix(l, "CMETHOD snowflake socks5 ") {
				socksAddr = strings.TrimPrefix(l, "CMETHOD snowflake socks5 ")
			}
			if l == "CMETHODS DONE" {
				break wait
			}
		case <-deadline:
			return fmt.Errorf("harness: client binary did not announce its SOCKS port within 15 s")
		}
	}
	var sargs []string
	if c.IceArg != "<absent>" {
		sargs = append(sargs, "ice="+strings.NewReplacer("\\", "\\\\", ";", "\\;", "=", "\\=").Replace(c.IceArg))
	}
	if c.MaxArg != "<absent>" {
		sargs = append(sargs, "max="+c.MaxArg)
	}
	if c.SocksReset {
		// handshake without authentication, CONNECT request, then RST
		rc, derr := net.DialTimeout("tcp", socksAddr, 5*time.Second)
		if derr != nil {
			return fmt.Errorf("harness: %v", derr)
		}
		rc.Write([]byte{5, 1, 0})
		var r2 [2]byte
		io.ReadFull(rc, r2[:])
		rc.Write([]byte{5, 1, 0, 1, 192, 0, 2, 99, 0, 80})
		if tc, ok := rc.(*net.TCPConn); ok {
			tc.SetLinger(0)
		}
		rc.Close()
		// whatever the client had started for this connection must wind down: attempts in flight may
		// complete, afterwards no poll
		time.Sleep(6 * time.Second)
		before := atomic.LoadInt64(&polls)
		time.Sleep(23 * time.Second)
		after := atomic.LoadInt64(&polls)
		select {
		case e := <-exited:
			return fmt.Errorf("the client process terminated after a SOCKS connection was reset before the reply (%v)", e)
		default:
		}
		if after != before {
			return fmt.Errorf("the client kept polling the broker after its SOCKS connection had been reset before the reply: %d polls in the following 23 s (-ice %q, broker %q)", after-before, c.IceFlag, c.Broker)
		}
		cmd.Process.Signal(syscall.SIGTERM)
		select {
		case <-exited:
		case <-time.After(15 * time.Second):
			return fmt.Errorf("the client did not exit within 15 s of SIGTERM")
		}
		return nil
	}
	conn, err := socksConnect(socksAddr, strings.Join(sargs, ";"))
	alive := func(when string) error {
		select {
		case e := <-exited:
			logb, _ := os.ReadFile(filepath.Join(dir, "client.log"))
			tail := string(logb)
			if len(tail) > 1500 {
				tail = tail[len(tail)-1500:]
			}
			return fmt.Errorf("the client process terminated %s (%v) with -ice %q, SOCKS args %q, broker %q; log tail:\n%s", when, e, c.IceFlag, strings.Join(sargs, ";"), c.Broker, tail)
		default:
			return nil
		}
	}
	if err != nil {
		// a rejected SOCKS request (e.g. max=abc) is a valid outcome; the process must survive it
		time.Sleep(500 * time.Millisecond)
		if e := alive("after rejecting a SOCKS request"); e != nil {
			return e
		}
	} else {
		// several rendezvous attempts (the collector paces itself at 10 s)
		time.Sleep(time.Duration(c.HoldSec) * time.Second)
		if e := alive(fmt.Sprintf("within %d s of failing rendezvous attempts", c.HoldSec)); e != nil {
			return e
		}
		conn.Close()
		// attempts already in flight may complete; afterwards the polling must stop
		time.Sleep(4 * time.Second)
		before := atomic.LoadInt64(&polls)
		time.Sleep(23 * time.Second)
		after := atomic.LoadInt64(&polls)
		if e := alive("after the SOCKS connection was closed"); e != nil {
			return e
		}
		if after != before {
			return fmt.Errorf("the client kept polling the broker after its SOCKS connection was closed: %d polls in the following 23 s (-ice %q, args %q, broker %q)", after-before, c.IceFlag, strings.Join(sargs, ";"), c.Broker)
		}
		uBin.Add("broker_polls_seen", before)
	}
	cmd.Process.Signal(syscall.SIGTERM)
	select {
	case <-exited:
	case <-time.After(15 * time.Second):
		return fmt.Errorf("the client did not exit within 15 s of SIGTERM")
	}
	return nil
}

var uBin = vstat.New("C15", "c15_binary")

func init() { vstat.Register(uBin, runBin) }

var iceValues = []string{"<absent>", "", " ", "garbage", "stun:127.0.0.1:9", "stun:127.0.0.1:9,stun:127.0.0.1:10", ",", "stun:", "turn:127.0.0.1:3478", "http://x", "stun:127.0.0.1:9,,"}

func TestVerifC15Binary(t *testing.T) {
	defer uBin.Flush()
	start := time.Now()
	rapid.Check(t, func(rt *rapid.T) {
		if time.Since(start) > time.Duration(vstat.Pick(60, 420))*time.Second {
			return // time budget used up
		}
		c := binCase{
			IceFlag: rapid.SampledFrom(iceValues).Draw(rt, "iceflag"),
			IceArg:  rapid.SampledFrom(append([]string{"<absent>", "<absent>"}, iceValues[1:]...)).Draw(rt, "icearg"),
			MaxArg:  rapid.SampledFrom([]string{"<absent>", "<absent>", "1", "3", "0", "-1", "abc", "999999"}).Draw(rt, "maxarg"),
			Broker:  rapid.SampledFrom([]string{"noproxies", "503", "garbage", "slow", "reset"}).Draw(rt, "broker"),
			HoldSec: rapid.SampledFrom([]int{2, 13, 13, 24}).Draw(rt, "hold"),
		}
		c.SocksReset = rapid.IntRange(0, 3).Draw(rt, "socksreset") == 0
		eff := c.IceFlag
		if c.IceArg != "<absent>" {
			eff = c.IceArg
		}
		nt := eff == "<absent>" || !strings.HasPrefix(eff, "stun:127")
		vstat.Run(uBin, t, rt, c, nt, []string{"broker=" + c.Broker, fmt.Sprintf("effective ice=%q", eff), fmt.Sprintf("socks reset before reply=%v", c.SocksReset)}, runBin)
	})
}

func TestVerifReplay(t *testing.T) { vstat.RunReplays(t) }
