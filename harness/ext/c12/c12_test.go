// C12 Broker messages round-trip and invalid ones are rejected.
package c12

import (
	"encoding/hex"
	"encoding/json"
	"fmt"
	"strings"
	"testing"
	"unicode/utf8"

	"git.torproject.org/pluggable-transports/snowflake.git/v2/common/messages"
	"pgregory.net/rapid"
	"verif.local/vstat"
)

const defaultFP = "2B280B23E1107BB62ABFC40DDCC8824814F80A72"

var natNames = map[string]bool{"unknown": true, "restricted": true, "unrestricted": true}
var knownTypes = map[string]bool{"standalone": true, "webext": true, "badge": true, "iptproxy": true}

type mcase struct {
	Kind string `json:"kind"` // pollreq pollresp ansreq ansresp clientreq clientresp
	Mode string `json:"mode"` // roundtrip | doc (hand-built document) | raw (arbitrary / mutated bytes)

	Sid     string  `json:"sid,omitempty"`
	Type    string  `json:"type,omitempty"`
	NAT     string  `json:"nat,omitempty"`
	Clients int     `json:"clients,omitempty"`
	Pattern *string `json:"pattern,omitempty"`
	Version string  `json:"version,omitempty"`

	Offer   string `json:"offer,omitempty"`
	Answer  string `json:"answer,omitempty"`
	Err     string `json:"err,omitempty"`
	Relay   string `json:"relay,omitempty"`
	Reason  string `json:"reason,omitempty"`
	Success bool   `json:"success,omitempty"`
	FP      string `json:"fp,omitempty"`

	Doc map[string]any `json:"doc,omitempty"` // hand-built JSON document (mode doc)
	Raw []byte         `json:"raw,omitempty"`
}

func natDefault(n string) string {
	if n == "" {
		return "unknown"
	}
	return n
}

func fpValid(fp string) bool {
	b, err := hex.DecodeString(fp)
	return err == nil && (len(b) == 20 || len(b) == 32)
}

func majorOK(v string) bool { return strings.Split(v, ".")[0] == "1" }

// ---------------------------------------------------------------------------

func runMsg(_ *testing.T, c mcase) error {
	switch c.Kind + "/" + c.Mode {
	case "pollreq/roundtrip":
		pat := ""
		if c.Pattern != nil {
			pat = *c.Pattern
		}
		b, err := messages.EncodeProxyPollRequestWithRelayPrefix(c.Sid, c.Type, c.NAT, c.Clients, pat)
		if err != nil {
			return fmt.Errorf("encode: %v", err)
		}
		sid, typ, nat, clients, gotPat, aware, err := messages.DecodeProxyPollRequestWithRelayPrefix(b)
		valid := c.Sid != "" && (c.NAT == "" || natNames[c.NAT])
		if !valid {
			if err == nil {
				return fmt.Errorf("poll request with sid %q nat %q must be rejected, decoded fine", c.Sid, c.NAT)
			}
			return nil
		}
		if err != nil {
			return fmt.Errorf("valid poll request rejected: %v (%s)", err, b)
		}
		wantType := c.Type
		if !knownTypes[wantType] {
			wantType = "unknown"
		}
		if sid != c.Sid || typ != wantType || nat != natDefault(c.NAT) || clients != c.Clients || gotPat != pat || !aware {
			return fmt.Errorf("poll request round trip: got (%q,%q,%q,%d,%q,aware=%v) want (%q,%q,%q,%d,%q,aware=true)", sid, typ, nat, clients, gotPat, aware, c.Sid, wantType, natDefault(c.NAT), c.Clients, pat)
		}
		// the older decoder refuses polls that carry a pattern, accepts the others with the same fields
		s2, t2, n2, c2, err2 := messages.DecodeProxyPollRequest(b)
		if pat != "" {
			if err2 == nil {
				return fmt.Errorf("DecodeProxyPollRequest accepted a poll carrying relay pattern %q", pat)
			}
		} else if err2 != nil || s2 != sid || t2 != typ || n2 != nat || c2 != clients {
			return fmt.Errorf("DecodeProxyPollRequest disagrees with the pattern-aware decoder: (%q,%q,%q,%d,%v)", s2, t2, n2, c2, err2)
		}
		// same poll without the pattern extension
		b0, _ := messages.EncodeProxyPollRequest(c.Sid, c.Type, c.NAT, c.Clients)
		_, _, _, _, p0, _, err0 := messages.DecodeProxyPollRequestWithRelayPrefix(b0)
		if err0 != nil || p0 != "" {
			return fmt.Errorf("EncodeProxyPollRequest output decodes to pattern %q, err %v", p0, err0)
		}
	case "pollreq/doc":
		b, _ := json.Marshal(c.Doc)
		sid, typ, nat, _, pat, aware, err := messages.DecodeProxyPollRequestWithRelayPrefix(b)
		v, _ := c.Doc["Version"].(string)
		dsid, _ := c.Doc["Sid"].(string)
		dnat, natIsStr := c.Doc["NAT"].(string)
		_, natPresent := c.Doc["NAT"]
		mustReject := !majorOK(v) || dsid == "" || (natPresent && natIsStr && dnat != "" && !natNames[dnat])
		if mustReject && err == nil {
			return fmt.Errorf("forbidden poll request accepted: %s", b)
		}
		if err == nil {
			if sid == "" || !natNames[nat] || !(knownTypes[typ] || typ == "unknown") {
				return fmt.Errorf("decoded poll request violates the protocol: sid %q nat %q type %q from %s", sid, nat, typ, b)
			}
			_, patPresent := c.Doc["AcceptedRelayPattern"]
			if pv, ok := c.Doc["AcceptedRelayPattern"].(string); patPresent && ok {
				if !aware || pat != pv {
					return fmt.Errorf("pattern %q present but decoded as (%q, aware=%v)", pv, pat, aware)
				}
			}
			if !patPresent && (aware || pat != "") {
				return fmt.Errorf("absent relay pattern reported as (%q, aware=%v); must be reported as unsupported", pat, aware)
			}
			if !natPresent && nat != "unknown" {
				return fmt.Errorf("missing NAT decoded as %q, want unknown", nat)
			}
		}
	case "pollresp/roundtrip":
		b, err := messages.EncodePollResponseWithRelayURL(c.Offer, c.Success, c.NAT, c.Relay, c.Reason)
		if err != nil {
			return fmt.Errorf("encode: %v", err)
		}
		offer, nat, relay, err := messages.DecodePollResponseWithRelayURL(b)
		switch {
		case c.Success && c.Offer != "":
			if err != nil || offer != c.Offer || nat != natDefault(c.NAT) || relay != c.Relay {
				return fmt.Errorf("poll response round trip: got (%q,%q,%q,%v) want (%q,%q,%q)", offer, nat, relay, err, c.Offer, natDefault(c.NAT), c.Relay)
			}
		case c.Success:
			if err == nil {
				return fmt.Errorf("client match without an offer accepted")
			}
		case c.Reason == "no match":
			if err != nil || offer != "" {
				return fmt.Errorf("no-match response decoded as (%q,%v)", offer, err)
			}
		default:
			if err == nil {
				return fmt.Errorf("failed poll response with reason %q decoded without error", c.Reason)
			}
			if offer != "" {
				return fmt.Errorf("failed poll response carries offer %q", offer)
			}
		}
		if !c.Success || c.Relay == "" {
			// the legacy helpers
			b2, _ := messages.EncodePollResponse(c.Offer, c.Success, c.NAT)
			o2, n2, e2 := messages.DecodePollResponse(b2)
			if c.Success && c.Offer != "" && (e2 != nil || o2 != c.Offer || n2 != natDefault(c.NAT)) {
				return fmt.Errorf("legacy poll response round trip: (%q,%q,%v)", o2, n2, e2)
			}
			if !c.Success && (e2 != nil || o2 != "") {
				return fmt.Errorf("legacy no-match response decoded as (%q,%v)", o2, e2)
			}
		}
	case "ansreq/roundtrip":
		b, err := messages.EncodeAnswerRequest(c.Answer, c.Sid)
		if err != nil {
			return fmt.Errorf("encode: %v", err)
		}
		ans, sid, err := messages.DecodeAnswerRequest(b)
		if c.Answer == "" || c.Sid == "" {
			if err == nil {
				return fmt.Errorf("answer request with sid %q answer %q must be rejected", c.Sid, c.Answer)
			}
			return nil
		}
		if err != nil || ans != c.Answer || sid != c.Sid {
			return fmt.Errorf("answer request round trip: got (%q,%q,%v) want (%q,%q)", ans, sid, err, c.Answer, c.Sid)
		}
	case "ansreq/doc":
		b, _ := json.Marshal(c.Doc)
		ans, sid, err := messages.DecodeAnswerRequest(b)
		v, _ := c.Doc["Version"].(string)
		dsid, _ := c.Doc["Sid"].(string)
		dans, _ := c.Doc["Answer"].(string)
		if (!majorOK(v) || dsid == "" || dans == "") && err == nil {
			return fmt.Errorf("forbidden answer request accepted: %s", b)
		}
		if err == nil && (ans == "" || sid == "") {
			return fmt.Errorf("decoded answer request has empty field: (%q,%q) from %s", ans, sid, b)
		}
	case "ansresp/roundtrip":
		b, err := messages.EncodeAnswerResponse(c.Success)
		if err != nil {
			return fmt.Errorf("encode: %v", err)
		}
		ok, err := messages.DecodeAnswerResponse(b)
		if err != nil || ok != c.Success {
			return fmt.Errorf("answer response round trip: got (%v,%v) want %v", ok, err, c.Success)
		}
	case "clientreq/roundtrip":
		req := &messages.ClientPollRequest{Offer: c.Offer, NAT: c.NAT, Fingerprint: c.FP}
		b, err := req.EncodeClientPollRequest()
		if err != nil {
			return fmt.Errorf("encode: %v", err)
		}
		got, err := messages.DecodeClientPollRequest(b)
		wantFP := c.FP
		if wantFP == "" {
			wantFP = defaultFP
		}
		valid := c.Offer != "" && (c.NAT == "" || natNames[c.NAT]) && fpValid(wantFP)
		if !valid {
			if err == nil {
				return fmt.Errorf("client poll (offer %q nat %q fp %q) must be rejected", c.Offer, c.NAT, c.FP)
			}
			return nil
		}
		if err != nil {
			return fmt.Errorf("valid client poll rejected: %v", err)
		}
		if got.Offer != c.Offer || got.NAT != natDefault(c.NAT) || got.Fingerprint != wantFP {
			return fmt.Errorf("client poll round trip: got %+v want (%q,%q,%q)", *got, c.Offer, natDefault(c.NAT), wantFP)
		}
	case "clientreq/doc":
		body, _ := json.Marshal(c.Doc)
		b := append([]byte(c.Version+"\n"), body...)
		got, err := messages.DecodeClientPollRequest(b)
		doffer, _ := c.Doc["offer"].(string)
		dnat, natIsStr := c.Doc["nat"].(string)
		dfp, fpIsStr := c.Doc["fingerprint"].(string)
		_, fpPresent := c.Doc["fingerprint"]
		mustReject := !majorOK(c.Version) || doffer == "" || (natIsStr && dnat != "" && !natNames[dnat]) || (fpIsStr && dfp != "" && !fpValid(dfp))
		if mustReject && err == nil {
			return fmt.Errorf("forbidden client poll accepted: %q", b)
		}
		if err == nil {
			if got.Offer == "" || !natNames[got.NAT] || !fpValid(got.Fingerprint) {
				return fmt.Errorf("decoded client poll violates the protocol: %+v from %q", *got, b)
			}
			if !fpPresent && got.Fingerprint != defaultFP {
				return fmt.Errorf("missing fingerprint decoded as %q, want the default bridge", got.Fingerprint)
			}
			if _, natPresent := c.Doc["nat"]; !natPresent && got.NAT != "unknown" {
				return fmt.Errorf("missing NAT decoded as %q", got.NAT)
			}
		}
	case "clientresp/roundtrip":
		resp := &messages.ClientPollResponse{Answer: c.Answer, Error: c.Err}
		b, err := resp.EncodePollResponse()
		if err != nil {
			return fmt.Errorf("encode: %v", err)
		}
		got, err := messages.DecodeClientPollResponse(b)
		if c.Answer == "" && c.Err == "" {
			if err == nil {
				return fmt.Errorf("client poll response with neither answer nor error accepted")
			}
			return nil
		}
		if err != nil || got.Answer != c.Answer || got.Error != c.Err {
			return fmt.Errorf("client poll response round trip: got (%+v,%v) want (%q,%q)", got, err, c.Answer, c.Err)
		}
	default:
		if c.Mode != "raw" {
			return fmt.Errorf("bad case %s/%s", c.Kind, c.Mode)
		}
		return runRaw(c)
	}
	return nil
}

// runRaw: arbitrary or mutated bytes; a decoder returns an error or a value that
// satisfies the protocol's validity predicate, and never panics (vstat.Safely).
func runRaw(c mcase) error {
	b := c.Raw
	switch c.Kind {
	case "pollreq":
		sid, typ, nat, _, _, _, err := messages.DecodeProxyPollRequestWithRelayPrefix(b)
		if err == nil && (sid == "" || !natNames[nat] || !(knownTypes[typ] || typ == "unknown")) {
			return fmt.Errorf("decoded poll request violates the protocol: sid %q nat %q type %q from %q", sid, nat, typ, b)
		}
		messages.DecodeProxyPollRequest(b)
	case "pollresp":
		offer, nat, _, err := messages.DecodePollResponseWithRelayURL(b)
		if err == nil && nat == "" {
			return fmt.Errorf("decoded poll response has empty NAT (offer %q) from %q", offer, b)
		}
		messages.DecodePollResponse(b)
	case "ansreq":
		ans, sid, err := messages.DecodeAnswerRequest(b)
		if err == nil && (ans == "" || sid == "") {
			return fmt.Errorf("decoded answer request has an empty field from %q", b)
		}
	case "ansresp":
		messages.DecodeAnswerResponse(b)
	case "clientreq":
		got, err := messages.DecodeClientPollRequest(b)
		if err == nil && (got.Offer == "" || !natNames[got.NAT] || !fpValid(got.Fingerprint)) {
			return fmt.Errorf("decoded client poll violates the protocol: %+v from %q", *got, b)
		}
		if err == nil {
			v := strings.SplitN(string(b), "\n", 2)[0]
			if !majorOK(v) {
				return fmt.Errorf("client poll with version line %q accepted", v)
			}
		}
	case "clientresp":
		got, err := messages.DecodeClientPollResponse(b)
		if err == nil && got.Answer == "" && got.Error == "" {
			return fmt.Errorf("decoded client poll response has neither answer nor error from %q", b)
		}
	}
	return nil
}

// ---------------------------------------------------------------------------
// generators

func genText(t *rapid.T, label string) string {
	s := rapid.OneOf(
		rapid.SampledFrom([]string{"", "x", "{\"type\":\"offer\",\"sdp\":\"v=0\\r\\n\"}", "\"", "\\", "<>&", "  ", "\x00\x01\x7f", "a\nb", "ünïcödé ☃", "null", "0"}),
		rapid.String(),
		rapid.StringN(0, 20, -1),
	).Draw(t, label)
	if rapid.IntRange(0, 60).Draw(t, label+"_big") == 60 {
		s = strings.Repeat(s+"Z", 1+65536/(len(s)+1))
	}
	if !utf8.ValidString(s) {
		s = strings.ToValidUTF8(s, "?")
	}
	return s
}

func genNonEmpty(t *rapid.T, label string) string {
	s := genText(t, label)
	if s == "" {
		return "v"
	}
	return s
}

func genNAT(t *rapid.T) string {
	return rapid.SampledFrom([]string{"unknown", "restricted", "unrestricted", "unrestricted", "", "other", "Unknown", "restricted "}).Draw(t, "nat")
}

func genFP(t *rapid.T) string {
	k := rapid.IntRange(0, 9).Draw(t, "fpclass")
	hexOf := func(n int) string {
		b := rapid.SliceOfN(rapid.Byte(), n, n).Draw(t, "fpbytes")
		s := hex.EncodeToString(b)
		if rapid.Bool().Draw(t, "upper") {
			s = strings.ToUpper(s)
		}
		return s
	}
	switch k {
	case 0:
		return ""
	case 1, 2:
		return hexOf(20)
	case 3:
		return hexOf(32)
	case 4:
		return hexOf(rapid.SampledFrom([]int{0, 1, 19, 21, 31, 33, 40, 64}).Draw(t, "badlen"))
	case 5:
		return hexOf(20)[1:]
	case 6:
		return "zz" + hexOf(19)
	case 7:
		return defaultFP
	default:
		return hexOf(20)
	}
}

var versions = []string{"1.0", "1.3", "1", "1.", "1.x.y", "1.99", "2.0", "0.9", "", "01", "x", "11.0", " 1.0", "2", "-1.0", ".1"}

func genDocValue(t *rapid.T, label string) any {
	switch rapid.IntRange(0, 8).Draw(t, label+"_type") {
	case 0:
		return nil
	case 1:
		return rapid.IntRange(-5, 5).Draw(t, label+"_n")
	case 2:
		return rapid.Bool().Draw(t, label+"_b")
	case 3:
		return []any{"x"}
	case 4:
		return map[string]any{"a": 1}
	case 5:
		return 1.5
	default:
		return genText(t, label+"_s")
	}
}

func genCase(t *rapid.T) mcase {
	c := mcase{}
	c.Kind = rapid.SampledFrom([]string{"pollreq", "pollresp", "ansreq", "ansresp", "clientreq", "clientresp"}).Draw(t, "kind")
	mode := rapid.IntRange(0, 9).Draw(t, "mode")
	switch {
	case mode <= 4:
		c.Mode = "roundtrip"
	case mode <= 6 && (c.Kind == "pollreq" || c.Kind == "ansreq" || c.Kind == "clientreq"):
		c.Mode = "doc"
	default:
		c.Mode = "raw"
	}
	// fields (also the basis of raw mutations)
	c.Sid = genText(t, "sid")
	if rapid.IntRange(0, 3).Draw(t, "sidnonempty") != 0 && c.Sid == "" {
		c.Sid = "sid-1"
	}
	c.Type = rapid.SampledFrom([]string{"standalone", "webext", "badge", "iptproxy", "", "mytype", "Standalone"}).Draw(t, "type")
	c.NAT = genNAT(t)
	c.Clients = rapid.OneOf(rapid.IntRange(0, 64), rapid.Int(), rapid.SampledFrom([]int{-1, 0, 8, 1 << 31, -1 << 63, 1<<63 - 1})).Draw(t, "clients")
	if rapid.Bool().Draw(t, "haspattern") {
		p := rapid.SampledFrom([]string{"", "snowflake.torproject.net$", "^snowflake.torproject.net$", "$", "^", "x"}).Draw(t, "pattern")
		c.Pattern = &p
	}
	c.Offer = genText(t, "offer")
	c.Answer = genText(t, "answer")
	c.Err = rapid.SampledFrom([]string{"", "", "no snowflake proxies currently available", "timed out waiting for answer!", "x"}).Draw(t, "err")
	c.Relay = rapid.SampledFrom([]string{"", "wss://snowflake.torproject.net/", "ws://127.0.0.1:8080/", "\"x\""}).Draw(t, "relay")
	c.Reason = rapid.SampledFrom([]string{"no match", "no match", "incorrect relay pattern", "", "client match", "x"}).Draw(t, "reason")
	c.Success = rapid.Bool().Draw(t, "success")
	c.FP = genFP(t)
	c.Version = rapid.SampledFrom(versions).Draw(t, "version")

	if c.Mode == "doc" {
		c.Doc = map[string]any{}
		put := func(key string, v any) {
			switch rapid.IntRange(0, 7).Draw(t, "doc_"+key) {
			case 0: // absent
			case 1:
				c.Doc[key] = genDocValue(t, key)
			default:
				c.Doc[key] = v
			}
		}
		switch c.Kind {
		case "pollreq":
			put("Sid", c.Sid)
			c.Doc["Version"] = c.Version
			if rapid.IntRange(0, 5).Draw(t, "noversion") == 0 {
				delete(c.Doc, "Version")
			}
			put("Type", c.Type)
			put("NAT", c.NAT)
			put("Clients", c.Clients)
			if c.Pattern != nil {
				put("AcceptedRelayPattern", *c.Pattern)
			}
		case "ansreq":
			put("Sid", c.Sid)
			c.Doc["Version"] = c.Version
			if rapid.IntRange(0, 5).Draw(t, "noversion") == 0 {
				delete(c.Doc, "Version")
			}
			put("Answer", c.Answer)
		case "clientreq":
			put("offer", c.Offer)
			put("nat", c.NAT)
			put("fingerprint", c.FP)
		}
	}
	if c.Mode == "raw" {
		c.Raw = genRaw(t, c)
		if c.Raw == nil {
			c.Raw = []byte{}
		}
	}
	return c
}

// genRaw: arbitrary bytes, JSON of the wrong shape, or a valid encoding with one mutation.
func genRaw(t *rapid.T, c mcase) []byte {
	var valid []byte
	switch c.Kind {
	case "pollreq":
		valid, _ = messages.EncodeProxyPollRequestWithRelayPrefix("sid", c.Type, "restricted", 8, "x$")
	case "pollresp":
		valid, _ = messages.EncodePollResponseWithRelayURL("offer", true, "unknown", "wss://x/", "")
	case "ansreq":
		valid, _ = messages.EncodeAnswerRequest("answer", "sid")
	case "ansresp":
		valid, _ = messages.EncodeAnswerResponse(true)
	case "clientreq":
		valid, _ = (&messages.ClientPollRequest{Offer: "offer", NAT: "unknown", Fingerprint: defaultFP}).EncodeClientPollRequest()
	case "clientresp":
		valid, _ = (&messages.ClientPollResponse{Answer: "answer"}).EncodePollResponse()
	}
	switch rapid.IntRange(0, 6).Draw(t, "rawkind") {
	case 0:
		return rapid.SliceOfN(rapid.Byte(), 0, 64).Draw(t, "bytes")
	case 1:
		return []byte(rapid.SampledFrom([]string{"", "null", "[]", "{}", "0", "\"x\"", "{\"Sid\":null}", "{\"Status\":5}", "1.0\n", "1.0\nnull", "1.0\n{}", "1.0\n[]", "2.0\n{\"offer\":\"x\"}", "\n{\"offer\":\"x\"}", "1.0\n{\"offer\":\"x\",\"nat\":5}", "{\"Status\":\"client match\"}", "{\"Status\":\"client match\",\"Offer\":\"\"}", "{\"Version\":\"1.0\",\"Sid\":\"s\",\"NAT\":[]}", "{\"answer\":\"\",\"error\":\"\"}", "{\"Answer\":null}", "{\"Version\":1.0,\"Sid\":\"s\"}", "{\"Version\":\"1.0\",\"Sid\":\"s\",\"Clients\":1e99}"}).Draw(t, "shape"))
	case 2: // truncation
		n := rapid.IntRange(0, len(valid)).Draw(t, "trunc")
		return append([]byte{}, valid[:n]...)
	case 3: // byte flip
		b := append([]byte{}, valid...)
		i := rapid.IntRange(0, len(b)-1).Draw(t, "pos")
		b[i] = rapid.Byte().Draw(t, "val")
		return b
	case 4: // insert
		b := append([]byte{}, valid...)
		i := rapid.IntRange(0, len(b)).Draw(t, "pos")
		ins := rapid.SampledFrom([]string{"\"", "{", "}", ",", ":", "null", "\\", "\x00", "\n", "1"}).Draw(t, "ins")
		return append(b[:i:i], append([]byte(ins), b[i:]...)...)
	case 5: // duplicate document
		return append(append([]byte{}, valid...), valid...)
	default: // swap a value type: replace the first string value by a number
		s := string(valid)
		if i := strings.Index(s, ":\""); i >= 0 {
			if j := strings.Index(s[i+2:], "\""); j >= 0 {
				return []byte(s[:i+1] + "7" + s[i+2+j+1:])
			}
		}
		return valid
	}
}

func needsEscape(s string) bool {
	b, _ := json.Marshal(s)
	return len(b) != len(s)+2
}

func classify(c mcase) (bool, []string) {
	labels := []string{c.Kind + "/" + c.Mode}
	nt := false
	switch c.Mode {
	case "roundtrip":
		for _, s := range []string{c.Sid, c.Offer, c.Answer} {
			if needsEscape(s) {
				nt = true
			}
		}
		if c.NAT == "" || c.FP == "" || c.Pattern == nil || !knownTypes[c.Type] {
			nt = true
		}
	case "doc":
		nt = true
	case "raw":
		nt = true
	}
	return nt, labels
}

var uMsg = vstat.New("C12", "c12_messages")

func init() { vstat.Register(uMsg, runMsg) }

func TestVerifC12Messages(t *testing.T) {
	defer uMsg.Flush()
	rapid.Check(t, func(rt *rapid.T) {
		c := genCase(rt)
		nt, labels := classify(c)
		vstat.Run(uMsg, t, rt, c, nt, labels, runMsg)
	})
}

func TestVerifReplay(t *testing.T) { vstat.RunReplays(t) }

func FuzzC12Decoders(f *testing.F) {
	for _, k := range []string{"pollreq", "pollresp", "ansreq", "ansresp", "clientreq", "clientresp"} {
		f.Add(k[:5], genSeed(k))
	}
	f.Fuzz(func(t *testing.T, kind string, data []byte) {
		kinds := []string{"pollreq", "pollresp", "ansreq", "ansresp", "clientreq", "clientresp"}
		k := kinds[(len(kind)+int(sum(kind)))%len(kinds)]
		c := mcase{Kind: k, Mode: "raw", Raw: data}
		if err := vstat.Safely(func() error { return runRaw(c) }); err != nil {
			t.Fatalf("%s", uMsg.Fail(c, "%v", err))
		}
	})
}

func sum(s string) (n byte) {
	for i := 0; i < len(s); i++ {
		n += s[i]
	}
	return
}

func genSeed(k string) []byte {
	switch k {
	case "pollreq":
		b, _ := messages.EncodeProxyPollRequestWithRelayPrefix("sid", "standalone", "restricted", 8, "x$")
		return b
	case "pollresp":
		b, _ := messages.EncodePollResponseWithRelayURL("offer", true, "unknown", "wss://x/", "")
		return b
	case "ansreq":
		b, _ := messages.EncodeAnswerRequest("answer", "sid")
		return b
	case "ansresp":
		b, _ := messages.EncodeAnswerResponse(true)
		return b
	case "clientreq":
		b, _ := (&messages.ClientPollRequest{Offer: "offer", NAT: "unknown"}).EncodeClientPollRequest()
		return b
	}
	b, _ := (&messages.ClientPollResponse{Answer: "answer"}).EncodePollResponse()
	return b
}

func FuzzC12Rapid(f *testing.F) {
	f.Fuzz(rapid.MakeFuzz(func(rt *rapid.T) {
		c := genCase(rt)
		if err := vstat.Safely(func() error { return runMsg(nil, c) }); err != nil {
			rt.Fatalf("%s", uMsg.Fail(c, "%v", err))
		}
	}))
}
