// C08 Local addresses are stripped from SDP, nothing else is lost.
package c08

import (
	"fmt"
	"net"
	"net/netip"
	"strconv"
	"strings"
	"testing"

	"git.torproject.org/pluggable-transports/snowflake.git/v2/common/util"
	"github.com/pion/sdp/v3"
	"pgregory.net/rapid"
	"verif.local/vstat"
	"verif.local/vstat/gen"
)

type cand struct {
	Foundation string `json:"f"`
	Component  string `json:"c"`
	Proto      string `json:"p"`
	Priority   string `json:"pr"`
	Addr       string `json:"a"`
	Port       string `json:"po"`
	Typ        string `json:"t"`
	Rest       string `json:"r,omitempty"` // raddr/rport, tcptype, generation ...
	Raw        string `json:"raw,omitempty"`
	// NoFoundation: the value starts with a blank instead of a foundation
	NoFoundation bool `json:"nofoundation,omitempty"`
	// Sep: how the tokens are separated. WebRTC stacks (pion: strings.Fields) accept any run of blanks
	// and tabs: "" = single blanks; tab-after-typ | blanks-after-typ | tab-before-typ | tabs | blanks-before-addr
	Sep string `json:"sep,omitempty"`
}

func (c cand) value() string {
	if c.Raw != "" {
		return c.Raw
	}
	sp, beforeTyp, afterTyp, beforeAddr := " ", " ", " ", " "
	switch c.Sep {
	case "tab-after-typ":
		afterTyp = "\t"
	case "blanks-after-typ":
		afterTyp = "  "
	case "tab-before-typ":
		beforeTyp = "\t"
	case "tabs":
		sp, beforeTyp, afterTyp, beforeAddr = "\t", "\t", "\t", "\t"
	case "blanks-before-addr":
		beforeAddr = "   "
	}
	fnd := c.Foundation
	if c.NoFoundation {
		fnd = ""
	}
	s := fnd + sp + c.Component + sp + c.Proto + sp + c.Priority + beforeAddr + c.Addr + sp + c.Port + beforeTyp + "typ" + afterTyp + c.Typ
	if c.Rest != "" {
		s += " " + c.Rest
	}
	return s
}

type media struct {
	Kind  string   `json:"kind"`          // application | audio | video
	Pre   []string `json:"pre,omitempty"` // other attributes before candidates
	Cands []cand   `json:"cands,omitempty"`
	Post  []string `json:"post,omitempty"` // other attributes after / between
	// Interleave: position of Post[i] among the candidates (after candidate index)
	PostAt []int `json:"post_at,omitempty"`
}

type sdpCase struct {
	Text  string  `json:"text,omitempty"` // arbitrary text instead of a structured description
	Media []media `json:"media,omitempty"`
	Type  string  `json:"type,omitempty"`
}

func (c sdpCase) render() string {
	if c.Text != "" || len(c.Media) == 0 {
		return c.Text
	}
	var b strings.Builder
	b.WriteString("v=0\r\no=- 4358805017720277108 1658000000 IN IP4 0.0.0.0\r\ns=-\r\nt=0 0\r\n")
	b.WriteString("a=fingerprint:sha-256 12:34:56:78:9A:BC:DE:F0:12:34:56:78:9A:BC:DE:F0:12:34:56:78:9A:BC:DE:F0:12:34:56:78:9A:BC:DE:F0\r\n")
	mids := []string{}
	for i := range c.Media {
		mids = append(mids, strconv.Itoa(i))
	}
	b.WriteString("a=group:BUNDLE " + strings.Join(mids, " ") + "\r\n")
	for i, m := range c.Media {
		switch m.Kind {
		case "audio":
			b.WriteString("m=audio 9 UDP/TLS/RTP/SAVPF 111\r\nc=IN IP4 0.0.0.0\r\n")
		case "video":
			b.WriteString("m=video 9 UDP/TLS/RTP/SAVPF 96\r\nc=IN IP6 ::\r\n")
		default:
			b.WriteString("m=application 9 UDP/DTLS/SCTP webrtc-datachannel\r\nc=IN IP4 0.0.0.0\r\n")
		}
		b.WriteString("a=setup:actpass\r\na=mid:" + strconv.Itoa(i) + "\r\n")
		for _, a := range m.Pre {
			b.WriteString("a=" + a + "\r\n")
		}
		emitPost := func(at int) {
			for k, p := range m.Post {
				pos := len(m.Cands)
				if k < len(m.PostAt) {
					pos = m.PostAt[k]
				}
				if pos > len(m.Cands) {
					pos = len(m.Cands)
				}
				if pos == at {
					b.WriteString("a=" + p + "\r\n")
				}
			}
		}
		for k, cd := range m.Cands {
			emitPost(k)
			b.WriteString("a=candidate:" + cd.value() + "\r\n")
		}
		emitPost(len(m.Cands))
	}
	return b.String()
}

// ---------------------------------------------------------------------------
// independent classification of a candidate attribute value

type verdict int

const (
	mustKeep verdict = iota
	mustRemove
	either // malformed: the statement does not say
)

var localPrefixes = []netip.Prefix{
	netip.MustParsePrefix("10.0.0.0/8"), netip.MustParsePrefix("172.16.0.0/12"), netip.MustParsePrefix("192.168.0.0/16"),
	netip.MustParsePrefix("100.64.0.0/10"), netip.MustParsePrefix("169.254.0.0/16"), netip.MustParsePrefix("fc00::/7"),
	netip.MustParsePrefix("127.0.0.0/8"), netip.MustParsePrefix("::1/128"), netip.MustParsePrefix("0.0.0.0/32"), netip.MustParsePrefix("::/128"),
}

func isLocalRef(a netip.Addr) bool {
	a = a.Unmap()
	for _, p := range localPrefixes {
		if p.Contains(a) {
			return true
		}
	}
	return false
}

func classifyCandidate(v string) verdict {
	if v == "" || v[0] == '\t' {
		return either
	}
	f := strings.Fields(v)
	if v[0] == ' ' {
		// a candidate without foundation ("a=candidate: 1 udp ..."): not RFC 8445, but WebRTC stacks accept
		// it ("seen in the wild") - a receiving peer would use the address, so it is a candidate like any other
		f = append([]string{" "}, f...)
	}
	if len(f) < 8 || f[6] != "typ" {
		return either
	}
	if _, err := strconv.ParseUint(f[1], 10, 16); err != nil {
		return either
	}
	if _, err := strconv.ParseUint(f[3], 10, 32); err != nil {
		return either
	}
	if _, err := strconv.ParseUint(f[5], 10, 16); err != nil {
		return either
	}
	lp := strings.ToLower(f[2])
	if lp != "udp" && lp != "tcp" {
		return either
	}
	switch f[7] {
	case "srflx", "prflx", "relay":
		// a well-formed non-host candidate is always kept; a malformed tail is unspecified
		if len(f) > 8 && f[8] == "raddr" {
			if len(f) < 12 {
				return either
			}
			if _, err := strconv.ParseUint(f[11], 10, 16); err != nil {
				return either
			}
		}
		if len(f) > 8 && f[8] == "tcptype" && len(f) < 10 {
			return either
		}
		return mustKeep
	case "host":
	default:
		return either
	}
	if len(f) > 8 && (f[8] == "raddr" || f[8] == "tcptype") {
		if f[8] == "raddr" && len(f) < 12 {
			return either
		}
		if f[8] == "raddr" {
			if _, err := strconv.ParseUint(f[11], 10, 16); err != nil {
				return either
			}
		}
		if f[8] == "tcptype" && len(f) < 10 {
			return either
		}
	}
	if strings.HasSuffix(f[4], ".local") {
		return mustKeep // mDNS name, not an address
	}
	a, err := netip.ParseAddr(f[4])
	if err != nil || a.Zone() != "" || net.ParseIP(f[4]) == nil {
		return either
	}
	if isLocalRef(a) {
		return mustRemove
	}
	return mustKeep
}

func lines(s string) []string {
	s = strings.ReplaceAll(s, "\r\n", "\n")
	s = strings.TrimSuffix(s, "\n")
	if s == "" {
		return nil
	}
	return strings.Split(s, "\n")
}

func runStrip(_ *testing.T, c sdpCase) error {
	in := c.render()
	out := util.StripLocalAddresses(in)
	if again := util.StripLocalAddresses(out); again != out && len(c.Media) > 0 {
		// demanded only of well-formed descriptions: for arbitrary text pion's own
		// parse/marshal round trip is not stable, and the statement only asks for no panic
		return fmt.Errorf("stripping is not idempotent:\n once:  %q\n twice: %q", out, again)
	}
	var d sdp.SessionDescription
	if err := safeUnmarshal(&d, in); err != nil {
		// not a session description: the statement only demands that nothing panics;
		// additionally nothing may be invented
		if out != in {
			return fmt.Errorf("input is not parseable as SDP (%v) yet the output differs from it:\n in:  %q\n out: %q", err, in, out)
		}
		return nil
	}
	canonB, err := d.Marshal()
	if err != nil {
		return nil
	}
	canon := string(canonB)
	if len(c.Media) == 0 {
		// arbitrary text that happens to parse: the line-level comparison below is only
		// meaningful when pion's round trip of the text is stable
		var d2 sdp.SessionDescription
		if safeUnmarshal(&d2, string(canonB)) != nil {
			return nil
		}
		if b2, err := d2.Marshal(); err != nil || string(b2) != canon {
			return nil
		}
	}
	// The stripping step re-marshals; compare against the canonical rendering of the input.
	outC := util.StripLocalAddresses(canon)
	if outC != out {
		return fmt.Errorf("stripping a description and stripping its canonical re-marshalling differ:\n %q\n %q", out, outC)
	}
	inL, outL := lines(canon), lines(out)
	j := 0
	inMedia := false
	for _, l := range inL {
		if strings.HasPrefix(l, "m=") {
			inMedia = true
		}
		v := mustKeep
		isCand := inMedia && strings.HasPrefix(l, "a=candidate:")
		if isCand {
			v = classifyCandidate(strings.TrimPrefix(l, "a=candidate:"))
		}
		if j < len(outL) && outL[j] == l {
			if v == mustRemove {
				return fmt.Errorf("local host candidate survives stripping: %q\n in:  %q\n out: %q", l, canon, out)
			}
			j++
			continue
		}
		// the line is missing from the output at this position
		if !isCand || v == mustKeep {
			return fmt.Errorf("line %q was lost or changed by stripping (output has %q here)\n in:  %q\n out: %q", l, at(outL, j), canon, out)
		}
	}
	if j != len(outL) {
		return fmt.Errorf("output contains a line the input does not have: %q\n in:  %q\n out: %q", outL[j], canon, out)
	}
	return nil
}

// safeUnmarshal: the harness' own use of pion's parser must not crash the harness (pion/sdp
// v3.0.5 panics on some malformed lines, D14); a panic counts as "not parseable".
func safeUnmarshal(d *sdp.SessionDescription, text string) (err error) {
	defer func() {
		if r := recover(); r != nil {
			err = fmt.Errorf("parser panicked: %v", r)
		}
	}()
	return d.Unmarshal([]byte(text))
}

func at(l []string, i int) string {
	if i < len(l) {
		return l[i]
	}
	return "<end>"
}

// ---------------------------------------------------------------------------
// generators

// every range boundary named by the statement: last address outside / first inside / last inside / first outside
var boundaryAddrs = []string{
	"9.255.255.255", "10.0.0.0", "10.255.255.255", "11.0.0.0",
	"172.15.255.255", "172.16.0.0", "172.31.255.255", "172.32.0.0", "172.24.1.1", "172.48.0.1", "172.0.0.1", "173.16.0.1",
	"192.167.255.255", "192.168.0.0", "192.168.255.255", "192.169.0.0", "193.168.0.1", "191.168.0.1",
	"100.63.255.255", "100.64.0.0", "100.127.255.255", "100.128.0.0", "100.96.0.1", "100.192.0.1", "101.64.0.1",
	"169.253.255.255", "169.254.0.0", "169.254.255.255", "169.255.0.0", "168.254.0.1",
	"126.255.255.255", "127.0.0.0", "127.0.0.1", "127.255.255.255", "128.0.0.0",
	"0.0.0.0", "0.0.0.1", "255.255.255.255", "1.1.1.1", "8.8.8.8", "203.0.113.7", "198.51.100.2",
	"fbff:ffff:ffff:ffff:ffff:ffff:ffff:ffff", "fc00::", "fc00::1", "fd12:3456:789a::1", "fdff:ffff:ffff:ffff:ffff:ffff:ffff:ffff", "fe00::", "fe80::1", "fec0::1", "ff02::1",
	"::1", "::", "::2", "2001:db8::1", "2607:f8b0:4004:800::200e", "2001:4860:4860::8888",
}

func genAddr(t *rapid.T) string {
	switch rapid.IntRange(0, 9).Draw(t, "addrclass") {
	case 0, 1, 2, 3, 4:
		a := rapid.SampledFrom(boundaryAddrs).Draw(t, "boundary")
		if !strings.Contains(a, ":") && rapid.IntRange(0, 3).Draw(t, "mapped") == 0 {
			return "::ffff:" + a
		}
		return a
	case 5:
		return gen.IPv4(t)
	case 6:
		return gen.IPv6(t)
	case 7:
		return rapid.SampledFrom([]string{"3f2a9c1e-7d44-4b7e-9a53-1c2d3e4f5a6b.local", "host.local", "10.0.0.1.local"}).Draw(t, "mdns")
	case 8:
		return rapid.SampledFrom([]string{"10.0.0.256", "10.0.0", "192.168.1.1.", "fe80::1%eth0", "[::1]", "10.0.0.1:80", "localhost", "0x7f.0.0.1", "010.0.0.1", "::ffff:10.0.0", "1::2::3", "-", "*"}).Draw(t, "junk")
	default:
		return gen.IPv4(t)
	}
}

func genCand(t *rapid.T) cand {
	c := cand{
		Foundation:   rapid.SampledFrom([]string{"1", "3144168538", "foundation", "0"}).Draw(t, "foundation"),
		Component:    rapid.SampledFrom([]string{"1", "2", "1", "1"}).Draw(t, "component"),
		Proto:        rapid.SampledFrom([]string{"udp", "udp", "UDP", "tcp", "TCP"}).Draw(t, "proto"),
		Priority:     rapid.SampledFrom([]string{"2130706431", "1694498815", "16777215", "0", "4294967295"}).Draw(t, "priority"),
		Addr:         genAddr(t),
		Port:         strconv.Itoa(rapid.IntRange(0, 65535).Draw(t, "port")),
		Typ:          rapid.SampledFrom([]string{"host", "host", "host", "srflx", "prflx", "relay"}).Draw(t, "typ"),
		Sep:          rapid.SampledFrom([]string{"", "", "", "", "", "tab-after-typ", "blanks-after-typ", "tab-before-typ", "tabs", "blanks-before-addr"}).Draw(t, "sep"),
		NoFoundation: rapid.IntRange(0, 9).Draw(t, "nofoundation") == 0,
	}
	if c.Typ != "host" {
		if rapid.IntRange(0, 4).Draw(t, "raddr") != 0 {
			c.Rest = "raddr " + genAddr(t) + " rport " + strconv.Itoa(rapid.IntRange(0, 65535).Draw(t, "rport"))
		}
	} else if strings.ToLower(c.Proto) == "tcp" && rapid.Bool().Draw(t, "tcptype") {
		c.Rest = "tcptype " + rapid.SampledFrom([]string{"active", "passive", "so"}).Draw(t, "tt")
	}
	if rapid.IntRange(0, 5).Draw(t, "generation") == 0 {
		if c.Rest != "" {
			c.Rest += " "
		}
		c.Rest += "generation 0"
	}
	if rapid.IntRange(0, 11).Draw(t, "malformed") == 0 {
		switch rapid.IntRange(0, 7).Draw(t, "malkind") {
		case 0:
			c.Port = "65536"
		case 1:
			c.Port = "x"
		case 2:
			c.Component = "-1"
		case 3:
			c.Priority = "4294967296"
		case 4:
			c.Proto = "dccp"
		case 5:
			c.Typ = "hostt"
		case 6:
			c.Raw = strings.Join(strings.Fields(c.value())[:rapid.IntRange(0, 7).Draw(t, "cut")], " ")
			if c.Raw == "" {
				c.Raw = "x"
			}
		case 7:
			c.Rest = "raddr 10.0.0.1"
		}
	}
	return c
}

var otherAttrs = []string{"sendrecv", "sctp-port:5000", "ice-ufrag:CGfS", "ice-pwd:pVYcZWk8VZUqTbCrLbX0uBQb", "end-of-candidates", "max-message-size:262144", "rtcp-mux", "ice-options:trickle", "rtpmap:111 opus/48000/2", "x-note:candidate 10.0.0.1 looks local", "candidates:none"}

func genCase(t *rapid.T) sdpCase {
	if rapid.IntRange(0, 11).Draw(t, "arbitrary") == 0 {
		s := rapid.OneOf(
			rapid.StringN(0, 80, -1),
			rapid.SampledFrom([]string{"", "v=0", "v=0\r\n", "garbage", "v= o=0 0 0 IN IP4\ns=\nt=\nr= ", "v=0\no=- 1 1 IN IP4 0.0.0.0\ns=-\nt=0 0\nr=7d 1h 0 25h\n", "v=0\no=- 1 1 IN IP4 0.0.0.0\ns=-\nt=\n", "v=0\no=- 1 1 IN IP4 0.0.0.0\ns=-\nt=0 0\nz=\n", "v=0\no=- 1 1 IN IP4 0.0.0.0\ns=-\nb=\nt=0 0\n", "v=0\no=\ns=-\nt=0 0\n", "v=0\no=- 1 1 IN IP4 0.0.0.0\ns=-\nt=0 0\nk=\nm=audio\n", "v=0\r\no=- 1 1 IN IP4 0.0.0.0\r\ns=-\r\nt=0 0\r\nm=application 9 UDP/DTLS/SCTP webrtc-datachannel\r\na=candidate:", "a=candidate:1 1 udp 1 10.0.0.1 1 typ host\r\n", "{\"type\":\"offer\",\"sdp\":\"v=0\"}", "v=0\r\nm=\r\n", "v=0\no=- 1 1 IN IP4 0.0.0.0\ns=-\nt=0 0\nm=audio 9 RTP/AVP 0\na=candidate:1 1 udp 1 192.168.0.9 9 typ host\n"}),
		).Draw(t, "text")
		if s == "" {
			s = "\n"
		}
		return sdpCase{Text: s}
	}
	var c sdpCase
	nm := rapid.IntRange(1, 3).Draw(t, "nmedia")
	for i := 0; i < nm; i++ {
		m := media{Kind: rapid.SampledFrom([]string{"application", "audio", "video"}).Draw(t, "kind")}
		m.Pre = rapid.SliceOfN(rapid.SampledFrom(otherAttrs), 0, 4).Draw(t, "pre")
		nc := rapid.IntRange(0, 12).Draw(t, "ncands")
		for k := 0; k < nc; k++ {
			m.Cands = append(m.Cands, genCand(t))
		}
		m.Post = rapid.SliceOfN(rapid.SampledFrom(otherAttrs), 0, 3).Draw(t, "post")
		for range m.Post {
			m.PostAt = append(m.PostAt, rapid.IntRange(0, nc).Draw(t, "postat"))
		}
		c.Media = append(c.Media, m)
	}
	return c
}

func classify(c sdpCase) (bool, []string) {
	if len(c.Media) == 0 {
		return false, []string{"arbitrary text"}
	}
	var labels []string
	rem, keep, eith, boundary := 0, 0, 0, 0
	isB := map[string]bool{}
	for _, a := range boundaryAddrs {
		isB[a] = true
		isB["::ffff:"+a] = true
	}
	for _, m := range c.Media {
		for _, cd := range m.Cands {
			switch classifyCandidate(cd.value()) {
			case mustRemove:
				rem++
			case mustKeep:
				keep++
			default:
				eith++
			}
			if cd.Raw == "" && isB[cd.Addr] {
				boundary++
			}
			if strings.HasPrefix(cd.Addr, "::ffff:") {
				labels = append(labels, "ipv4-mapped")
			}
		}
	}
	if rem > 0 {
		labels = append(labels, "has candidate to remove")
	}
	if eith > 0 {
		labels = append(labels, "has malformed candidate")
	}
	if len(c.Media) > 1 {
		labels = append(labels, "media>1")
	}
	return boundary >= 1 && keep >= 1 && rem >= 1, labels
}

var uStrip = vstat.New("C08", "c08_strip")

func init() { vstat.Register(uStrip, runStrip) }

func TestVerifC08Strip(t *testing.T) {
	defer uStrip.Flush()
	rapid.Check(t, func(rt *rapid.T) {
		c := genCase(rt)
		nt, labels := classify(c)
		vstat.Run(uStrip, t, rt, c, nt, labels, runStrip)
	})
}

// ---------------------------------------------------------------------------
// IsLocal against the reference prefixes, exhaustively over the first two octets
// and over the first byte of IPv6, plus generated addresses

type ipCase struct {
	IP string `json:"ip"`
}

func runIsLocal(_ *testing.T, c ipCase) error {
	a, err := netip.ParseAddr(c.IP)
	if err != nil {
		return nil
	}
	ip := net.ParseIP(c.IP)
	if ip == nil {
		return nil
	}
	want := isLocalRef(a)
	got := util.IsLocal(ip) || ip.IsUnspecified() || ip.IsLoopback()
	if got != want {
		return fmt.Errorf("address %s: classified local=%v, the ranges of the statement say %v", c.IP, got, want)
	}
	return nil
}

var uIsLocal = vstat.New("C08", "c08_islocal")

func init() { vstat.Register(uIsLocal, runIsLocal) }

func TestVerifC08IsLocal(t *testing.T) {
	defer uIsLocal.Flush()
	if vstat.Shard() == 0 {
		n := 0
		for a := 0; a < 256; a++ {
			for b := 0; b < 256; b++ {
				for _, tail := range []string{"0.0", "0.1", "255.255", "37.200"} {
					for _, pre := range []string{"", "::ffff:"} {
						c := ipCase{IP: fmt.Sprintf("%s%d.%d.%s", pre, a, b, tail)}
						nt := a == 10 || a == 172 || a == 192 || a == 100 || a == 169 || a == 127 || a == 0 || a == 9 || a == 11
						uIsLocal.Case(c, nt)
						n++
						if err := runIsLocal(t, c); err != nil {
							t.Fatalf("%s", uIsLocal.Fail(c, "%v", err))
						}
					}
				}
			}
		}
		for a := 0; a < 65536; a++ {
			c := ipCase{IP: fmt.Sprintf("%x::1", a)}
			if a == 0 {
				c.IP = "0:0::1:1"
			}
			uIsLocal.Case(c, a>>8 >= 0xfa)
			n++
			if err := runIsLocal(t, c); err != nil {
				t.Fatalf("%s", uIsLocal.Fail(c, "%v", err))
			}
		}
		uIsLocal.Add("exhaustive_first_two_octets_and_first_group", int64(n))
	}
	rapid.Check(t, func(rt *rapid.T) {
		c := ipCase{IP: genAddr(rt)}
		vstat.Run(uIsLocal, t, rt, c, true, nil, runIsLocal)
	})
}

func TestVerifReplay(t *testing.T) { vstat.RunReplays(t) }

func FuzzC08Rapid(f *testing.F) {
	f.Fuzz(rapid.MakeFuzz(func(rt *rapid.T) {
		c := genCase(rt)
		if err := vstat.Safely(func() error { return runStrip(nil, c) }); err != nil {
			rt.Fatalf("%s", uStrip.Fail(c, "%v", err))
		}
	}))
}

// arbitrary text: no panic, idempotent, nothing invented
func FuzzC08Text(f *testing.F) {
	f.Add("v=0\r\no=- 1 1 IN IP4 0.0.0.0\r\ns=-\r\nt=0 0\r\nm=application 9 UDP/DTLS/SCTP webrtc-datachannel\r\nc=IN IP4 0.0.0.0\r\na=candidate:1 1 udp 1 10.0.0.1 1 typ host\r\na=candidate:2 1 udp 1 8.8.8.8 1 typ host\r\n")
	f.Fuzz(func(t *testing.T, text string) {
		c := sdpCase{Text: text}
		if c.Text == "" {
			return
		}
		if err := vstat.Safely(func() error { return runStrip(t, c) }); err != nil {
			t.Fatalf("%s", uStrip.Fail(c, "%v", err))
		}
	})
}
