module verifext

go 1.25

require (
	git.torproject.org/pluggable-transports/snowflake.git/v2 v2.0.0
	pgregory.net/rapid v1.3.0
	verif.local/vstat v0.0.0
)

replace git.torproject.org/pluggable-transports/snowflake.git/v2 => /repo

replace verif.local/vstat => ../vstat
