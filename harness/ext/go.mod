module verifext

go 1.25

require (
	git.torproject.org/pluggable-transports/snowflake.git/v2 v2.0.0
	github.com/gorilla/websocket v1.4.1
	github.com/pion/sdp/v3 v3.0.5
	github.com/pion/stun v0.3.5
	github.com/pion/webrtc/v3 v3.1.41
	github.com/xtaci/kcp-go/v5 v5.6.1
	github.com/xtaci/smux v1.5.15
	golang.org/x/net v0.0.0-20220425223048-2871e0cb64e4
	pgregory.net/rapid v1.3.0
	verif.local/vstat v0.0.0
)

require (
	github.com/clarkduvall/hyperloglog v0.0.0-20171127014514-a0107a5d8004 // indirect
	github.com/google/uuid v1.3.0 // indirect
	github.com/klauspost/cpuid v1.3.1 // indirect
	github.com/klauspost/reedsolomon v1.9.9 // indirect
	github.com/pion/datachannel v1.5.2 // indirect
	github.com/pion/dtls/v2 v2.1.5 // indirect
	github.com/pion/ice/v2 v2.2.6 // indirect
	github.com/pion/interceptor v0.1.11 // indirect
	github.com/pion/logging v0.2.2 // indirect
	github.com/pion/mdns v0.0.5 // indirect
	github.com/pion/randutil v0.1.0 // indirect
	github.com/pion/rtcp v1.2.9 // indirect
	github.com/pion/rtp v1.7.13 // indirect
	github.com/pion/sctp v1.8.2 // indirect
	github.com/pion/srtp/v2 v2.0.9 // indirect
	github.com/pion/transport v0.13.0 // indirect
	github.com/pion/turn/v2 v2.0.8 // indirect
	github.com/pion/udp v0.1.1 // indirect
	github.com/pkg/errors v0.9.1 // indirect
	github.com/refraction-networking/utls v1.0.0 // indirect
	github.com/templexxx/cpu v0.0.7 // indirect
	github.com/templexxx/xorsimd v0.4.1 // indirect
	github.com/tjfoc/gmsm v1.3.2 // indirect
	golang.org/x/crypto v0.0.0-20220516162934-403b01795ae8 // indirect
	golang.org/x/sys v0.0.0-20211216021012-1d35b9e2eb4e // indirect
	golang.org/x/text v0.3.7 // indirect
)

replace git.torproject.org/pluggable-transports/snowflake.git/v2 => /repo

replace verif.local/vstat => ../vstat
