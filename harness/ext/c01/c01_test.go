// C01 (tier 1) End-to-end byte stream exact and ordered across carrier churn,
// through the real server transport and a model client built from real components.
package c01

import (
	"fmt"
	"testing"
	"time"

	"pgregory.net/rapid"
	"verif.local/vstat"
	"verifext/rig"
)

type c01Case struct {
	S rig.Session `json:"s"`
}

const stallBudget = 40 * time.Second

func runC01(_ *testing.T, c c01Case) error {
	r, err := rig.Get()
	if err != nil {
		return fmt.Errorf("harness: %v", err)
	}
	res := r.Run(&c.S, stallBudget)
	if res.Err != "" {
		return fmt.Errorf("%s", res.Err)
	}
	if res.Stalled {
		// stall rule: solitary re-run with a doubled budget before anything is reported
		c2 := c
		c2.S.Label ^= 0x1000000000000000
		res2 := r.Run(&c2.S, 2*stallBudget)
		if res2.Err != "" {
			return fmt.Errorf("%s", res2.Err)
		}
		if res2.Stalled {
			return fmt.Errorf("stream stalled although a healthy carrier is available: upstream %d/%d, downstream %d/%d bytes delivered after %d carriers (no progress for %v, twice)", res2.UpGot, c.S.UpSize, res2.DownGot, c.S.DownSize, res2.Carriers, 2*stallBudget)
		}
		res = res2
		uC01.Add("label:stall-then-ok", 1)
	}
	if !res.UpDone || !res.DownDone {
		return fmt.Errorf("incomplete: upstream %d/%d, downstream %d/%d", res.UpGot, c.S.UpSize, res.DownGot, c.S.DownSize)
	}
	if res.Accepted != 1 {
		return fmt.Errorf("session surfaced as %d accepted connections, expected exactly one", res.Accepted)
	}
	if res.CutsWithUnacked > 0 {
		uC01.Add("cuts_with_unacknowledged_data", int64(res.CutsWithUnacked))
	}
	return nil
}

var uC01 = vstat.New("C01", "c01_transport")

func init() { vstat.Register(uC01, runC01) }

var labelCounter uint64

func TestVerifC01Transport(t *testing.T) {
	defer uC01.Flush()
	rig.LongOutages = true
	start := time.Now()
	rapid.Check(t, func(rt *rapid.T) {
		if time.Since(start) > time.Duration(vstat.Pick(75, 900))*time.Second {
			return // time budget of this real-time unit used up: the remaining iterations are empty (not counted as cases)
		}
		labelCounter++
		label := vstat.Seed()<<32 ^ labelCounter<<8 ^ uint64(rapid.IntRange(0, 255).Draw(rt, "labelnoise"))
		c := c01Case{S: rig.GenSession(rt, label, 8)}
		var labels []string
		for _, cr := range c.S.Carriers {
			if cr.DialDelayMs >= 30000 {
				labels = append(labels, "outage of 30 s or more between carriers")
			}
		}
		for _, cr := range c.S.Carriers[:len(c.S.Carriers)-1] {
			labels = append(labels, "mode="+cr.Mode)
			if cr.CutUpAfter > 0 && cr.CutUpAfter < 400 || cr.CutDownAfter > 0 && cr.CutDownAfter < 400 {
				labels = append(labels, "cut inside handshake/token/id")
			}
		}
		if len(c.S.Carriers) == 1 {
			labels = append(labels, "no fault")
		}
		nt := len(c.S.Carriers) >= 2 && c.S.UpSize+c.S.DownSize > 3000
		uC01.Journal(c)
		vstat.Run(uC01, t, rt, c, nt, dedup(labels), runC01)
	})
	uC01.JournalDone()
}

func dedup(l []string) []string {
	seen := map[string]bool{}
	var out []string
	for _, s := range l {
		if !seen[s] {
			seen[s] = true
			out = append(out, s)
		}
	}
	return out
}

func TestVerifReplay(t *testing.T) { vstat.RunReplays(t) }
