// C19 (d) distinct-IP journal: keyed-hash sketches per interval, merged over a window.
package c19

import (
	"bytes"
	"fmt"
	"math"
	"strings"
	"testing"
	"testing/synctest"
	"time"

	"git.torproject.org/pluggable-transports/snowflake.git/v2/common/ipsetsink"
	"git.torproject.org/pluggable-transports/snowflake.git/v2/common/ipsetsink/sinkcluster"
	"pgregory.net/rapid"
	"verif.local/vstat"
)

type add struct {
	Gap int64 `json:"gap"` // ns since the previous add
	IP  int   `json:"ip"`  // index into the address universe
	Rep int   `json:"rep,omitempty"` // number of consecutive distinct addresses added at this instant (bulk)
}

type window struct {
	From int64 `json:"from"` // ns since start
	To   int64 `json:"to"`
}

type jcase struct {
	Interval int64    `json:"interval"`
	Adds     []add    `json:"adds"`
	Windows  []window `json:"windows"`
	Key      string   `json:"key"`
}

type syncBuf struct{ bytes.Buffer }

func (s *syncBuf) Sync() error { return nil }

func ipText(i int) string {
	if i%3 == 0 {
		return fmt.Sprintf("2001:db8:%x::%x", i/65536, i%65536)
	}
	return fmt.Sprintf("%d.%d.%d.%d", 11+i>>24&0x7f, i>>16&0xff, i>>8&0xff, i&0xff)
}

type chunk struct {
	start, end int64
	ips        map[int]bool
}

func runJournal(t *testing.T, c jcase) (err error) {
	synctest.Test(t, func(st *testing.T) {
		t0 := time.Now()
		var buf syncBuf
		w := sinkcluster.NewClusterWriter(&buf, time.Duration(c.Interval), ipsetsink.NewIPSetSink(c.Key))
		// reference model of the chunking: an add later than interval after the last flush first
		// closes the running chunk
		var chunks []chunk
		cur := chunk{start: 0, ips: map[int]bool{}}
		last := int64(0)
		now := int64(0)
		for _, a := range c.Adds {
			time.Sleep(time.Duration(a.Gap))
			now += a.Gap
			n := a.Rep
			if n < 1 {
				n = 1
			}
			for k := 0; k < n; k++ {
				if last+c.Interval < now {
					cur.end = now
					chunks = append(chunks, cur)
					cur = chunk{start: now, ips: map[int]bool{}}
					last = now
				}
				w.AddIPToSet(ipText(a.IP + k))
				cur.ips[a.IP+k] = true
			}
		}
		time.Sleep(time.Second)
		now += int64(time.Second)
		w.WriteIPSetToDisk()
		cur.end = now
		chunks = append(chunks, cur)

		journal := buf.String()
		if n := strings.Count(journal, "\n"); n != len(chunks) {
			err = fmt.Errorf("journal has %d chunks, the reference chunking rule gives %d", n, len(chunks))
			return
		}
		for _, ch := range chunks {
			checked := 0
			for ip := range ch.ips {
				if checked++; checked > 40 {
					break // a sample per chunk: the journal of a bulk chunk is hundreds of kilobytes long
				}
				if s := ipText(ip); strings.Contains(journal, s) {
					err = fmt.Errorf("journal contains recorded address %q in clear", s)
					return
				}
			}
		}
		for _, wd := range c.Windows {
			from, to := t0.Add(time.Duration(wd.From)), t0.Add(time.Duration(wd.To))
			res, e := sinkcluster.NewClusterCounter(from, to).Count(strings.NewReader(journal))
			if e != nil {
				err = fmt.Errorf("Count: %v", e)
				return
			}
			union := map[int]bool{}
			inc := 0
			for _, ch := range chunks {
				if ch.start >= wd.From && ch.end <= wd.To {
					inc++
					for ip := range ch.ips {
						union[ip] = true
					}
				}
			}
			if int(res.ChunkIncluded) != inc {
				err = fmt.Errorf("window [%v,%v]: %d chunks included, %d chunks lie inside the window (chunks %s)", time.Duration(wd.From), time.Duration(wd.To), res.ChunkIncluded, inc, descr(chunks))
				return
			}
			truth := float64(len(union))
			tol := math.Max(2, 0.03*truth)
			if math.Abs(float64(res.Sum)-truth) > tol {
				err = fmt.Errorf("window [%v,%v]: estimate %d, distinct addresses recorded in the %d chunks inside it: %d (tolerance %.0f)", time.Duration(wd.From), time.Duration(wd.To), res.Sum, inc, len(union), tol)
				return
			}
		}
		// a different masking key must give different sketches for the same (non-empty) set
		if len(chunks[0].ips) > 0 {
			a, b := ipsetsink.NewIPSetSink(c.Key), ipsetsink.NewIPSetSink(c.Key+"x")
			n := 0
			for ip := range chunks[0].ips {
				if n++; n > 200 {
					break
				}
				a.AddIPToSet(ipText(ip))
				b.AddIPToSet(ipText(ip))
			}
			da, _ := a.Dump()
			db, _ := b.Dump()
			if bytes.Equal(da, db) {
				err = fmt.Errorf("sketches under two different masking keys are identical")
			}
		}
	})
	return err
}

func descr(cs []chunk) string {
	var s []string
	for _, c := range cs {
		s = append(s, fmt.Sprintf("[%v,%v]:%d", time.Duration(c.start), time.Duration(c.end), len(c.ips)))
	}
	return strings.Join(s, " ")
}

var uJ = vstat.New("C19", "c19_journal")

func init() { vstat.Register(uJ, runJournal) }

func TestVerifC19Journal(t *testing.T) {
	defer uJ.Flush()
	rapid.Check(t, func(rt *rapid.T) {
		c := jcase{Interval: int64(rapid.SampledFrom([]time.Duration{time.Minute, time.Hour, 10 * time.Second}).Draw(rt, "interval")), Key: rapid.SampledFrom([]string{"", "k", "secret-masking-key"}).Draw(rt, "key")}
		n := rapid.IntRange(1, 60).Draw(rt, "nadds")
		total := int64(0)
		var edges []int64
		for i := 0; i < n; i++ {
			a := add{IP: rapid.IntRange(0, 40).Draw(rt, "ip")}
			switch rapid.IntRange(0, 5).Draw(rt, "gapclass") {
			case 0:
				a.Gap = 0
			case 1:
				a.Gap = c.Interval // exactly the interval: not yet "after"
			case 2:
				a.Gap = c.Interval + 1
			case 3:
				a.Gap = 3 * c.Interval
			default:
				a.Gap = int64(rapid.IntRange(1, 1000).Draw(rt, "gapms")) * int64(time.Millisecond)
			}
			if rapid.IntRange(0, 30).Draw(rt, "bulk") == 30 {
				a.IP = rapid.IntRange(1000, 100000).Draw(rt, "bulkbase")
				a.Rep = rapid.SampledFrom([]int{200, 3000, 3000, 3000, 70000}).Draw(rt, "bulkn")
			}
			total += a.Gap
			edges = append(edges, total)
			c.Adds = append(c.Adds, a)
		}
		total += int64(time.Second)
		edges = append(edges, 0, total)
		nw := rapid.IntRange(1, 6).Draw(rt, "nwindows")
		cuts := false
		for i := 0; i < nw; i++ {
			f := rapid.SampledFrom(edges).Draw(rt, "from") + rapid.SampledFrom([]int64{-1, 0, 0, 1}).Draw(rt, "fd")
			to := rapid.SampledFrom(edges).Draw(rt, "to") + rapid.SampledFrom([]int64{-1, 0, 0, 1}).Draw(rt, "td")
			if rapid.IntRange(0, 3).Draw(rt, "whole") == 0 {
				f, to = -1, total+1
			}
			if f > 0 || to < total {
				cuts = true
			}
			c.Windows = append(c.Windows, window{From: f, To: to})
		}
		vstat.Run(uJ, t, rt, c, cuts && len(c.Adds) >= 3, nil, runJournal)
	})
}

func TestVerifReplay(t *testing.T) { vstat.RunReplays(t) }
