// C14 wire tier (thorough): the real broker BINARY on a loopback port, raw HTTP over TCP:
// keep-alive sequences, pipelining, Expect: 100-continue, chunked and oversized bodies.
// Every request must get a response that parses completely; the process must stay alive;
// the canaries must behave afterwards.
package c14wire

import (
	"bufio"
	"bytes"
	"fmt"
	"io"
	"net"
	"net/http"
	"os"
	"os/exec"
	"path/filepath"
	"strconv"
	"strings"
	"testing"
	"time"

	"git.torproject.org/pluggable-transports/snowflake.git/v2/common/amp"
	"git.torproject.org/pluggable-transports/snowflake.git/v2/common/messages"
	"pgregory.net/rapid"
	"verif.local/vstat"
)

type wreq struct {
	Method  string            `json:"method"`
	Path    string            `json:"path"`
	Headers map[string]string `json:"headers,omitempty"`
	Body    []byte            `json:"body,omitempty"`
	Chunked bool              `json:"chunked,omitempty"`
	Expect  bool              `json:"expect,omitempty"`
}

type wcase struct {
	Reqs      []wreq `json:"reqs"`
	Pipelined bool   `json:"pipelined,omitempty"`
}

var (
	brokerAddr string
	brokerCmd  *exec.Cmd
)

func startBroker() error {
	if brokerCmd != nil {
		return nil
	}
	dir, err := os.MkdirTemp(os.Getenv("VERIF_OUT"), "wire")
	if err != nil {
		return err
	}
	bin := filepath.Join(dir, "broker")
	gobin := os.Getenv("VERIF_GO")
	if gobin == "" {
		gobin = "go"
	}
	repo := os.Getenv("VERIF_REPO")
	if repo == "" {
		repo = "/repo"
	}
	b := exec.Command(gobin, "build", "-ldflags=-checklinkname=0", "-o", bin, "./broker")
	b.Dir = repo
	b.Env = append(os.Environ(), "GOFLAGS=-mod=mod", "GOPROXY=off", "GOSUMDB=off", "GOTOOLCHAIN=local")
	if out, err := b.CombinedOutput(); err != nil {
		return fmt.Errorf("building broker: %v\n%s", err, out)
	}
	l, _ := net.Listen("tcp", "127.0.0.1:0")
	brokerAddr = l.Addr().String()
	l.Close()
	// the metrics log the broker serves at /metrics is not empty (an empty one hides what a handler does with
	// the body of a HEAD response); it is small and static, so that response sizes stay far below anything
	// where TCP-level effects of closing a pipelined connection could truncate a response
	mlog := filepath.Join(dir, "metrics.log")
	if mf, err := os.Create(mlog); err == nil {
		line := []byte("snowflake-stats-end 2026-01-01 00:00:00 (86400 s) " + strings.Repeat("x", 200) + "\n")
		for i := 0; i < 64<<10/len(line); i++ {
			mf.Write(line)
		}
		mf.Close()
	}
	brokerCmd = exec.Command(bin, "-addr", brokerAddr, "-disable-tls", "-disable-geoip", "-metrics-log", mlog)
	lf, _ := os.Create(filepath.Join(dir, "broker.log"))
	brokerCmd.Stdout, brokerCmd.Stderr = lf, lf
	if err := brokerCmd.Start(); err != nil {
		return err
	}
	go brokerCmd.Wait()
	// the listening socket must be the broker's own (the port was picked by listen-and-close; another process
	// can take it in between and a connect test would succeed against that foreign listener)
	_, ps, _ := net.SplitHostPort(brokerAddr)
	port, _ := strconv.Atoi(ps)
	if !vstat.WaitListener(brokerCmd.Process.Pid, port, 10*time.Second) {
		brokerCmd.Process.Kill()
		brokerCmd = nil
		return fmt.Errorf("broker did not come up on %s (port taken by another process?)", brokerAddr)
	}
	return nil
}

func render(r wreq) []byte {
	var b bytes.Buffer
	fmt.Fprintf(&b, "%s %s HTTP/1.1\r\nHost: broker.test\r\n", r.Method, r.Path)
	for k, v := range r.Headers {
		fmt.Fprintf(&b, "%s: %s\r\n", k, v)
	}
	if r.Expect {
		b.WriteString("Expect: 100-continue\r\n")
	}
	if r.Chunked {
		b.WriteString("Transfer-Encoding: chunked\r\n\r\n")
		body := r.Body
		for len(body) > 0 {
			n := 1000
			if n > len(body) {
				n = len(body)
			}
			fmt.Fprintf(&b, "%x\r\n", n)
			b.Write(body[:n])
			b.WriteString("\r\n")
			body = body[n:]
		}
		b.WriteString("0\r\n\r\n")
	} else {
		if len(r.Body) > 0 || r.Method == "POST" || r.Method == "PUT" {
			fmt.Fprintf(&b, "Content-Length: %d\r\n", len(r.Body))
		}
		b.WriteString("\r\n")
		b.Write(r.Body)
	}
	return b.Bytes()
}

func readResp(br *bufio.Reader, method string) (*http.Response, []byte, error) {
	for {
		resp, err := http.ReadResponse(br, &http.Request{Method: method})
		if err != nil {
			return nil, nil, err
		}
		if resp.StatusCode == 100 {
			continue
		}
		body, err := io.ReadAll(resp.Body)
		resp.Body.Close()
		if err != nil {
			return resp, body, fmt.Errorf("reading response body: %v", err)
		}
		return resp, body, nil
	}
}

func exchange(c wcase) error {
	conn, err := net.DialTimeout("tcp", brokerAddr, 5*time.Second)
	if err != nil {
		return fmt.Errorf("harness: dial: %v", err)
	}
	defer conn.Close()
	br := bufio.NewReader(conn)
	conn.SetDeadline(time.Now().Add(time.Duration(20+12*len(c.Reqs)) * time.Second))
	if c.Pipelined {
		var all []byte
		for _, r := range c.Reqs {
			all = append(all, render(r)...)
		}
		go conn.Write(all)
	}
	for i, r := range c.Reqs {
		if !c.Pipelined {
			raw := render(r)
			// written in the background: an oversized body may be refused before it is read completely
			go conn.Write(raw)
		}
		resp, _, err := readResp(br, r.Method)
		if err != nil {
			return fmt.Errorf("request #%d (%s %s, %d body bytes%s): no well-formed response: %v", i, r.Method, clip(r.Path), len(r.Body), map[bool]string{true: ", chunked"}[r.Chunked], err)
		}
		if resp.StatusCode < 100 || resp.StatusCode > 599 {
			return fmt.Errorf("request #%d: status %d", i, resp.StatusCode)
		}
		if resp.Close || resp.StatusCode == 400 && len(r.Body) > 100000 || resp.StatusCode == 413 {
			// the server announced that it closes the connection (e.g. after an oversized body): the
			// remaining requests of this sequence go over a new connection
			rest := wcase{Reqs: c.Reqs[i+1:], Pipelined: c.Pipelined}
			if len(rest.Reqs) > 0 {
				return exchange(rest)
			}
			return nil
		}
	}
	return nil
}

func clip(s string) string {
	if len(s) > 60 {
		return s[:60] + "…"
	}
	return s
}

func canaries() error {
	for _, r := range []wreq{{Method: "GET", Path: "/robots.txt"}, {Method: "GET", Path: "/debug"}, {Method: "GET", Path: "/prometheus"}} {
		conn, err := net.DialTimeout("tcp", brokerAddr, 5*time.Second)
		if err != nil {
			return fmt.Errorf("the broker no longer accepts connections: %v", err)
		}
		conn.SetDeadline(time.Now().Add(15 * time.Second))
		conn.Write(render(r))
		resp, body, err := readResp(bufio.NewReader(conn), "GET")
		conn.Close()
		if err != nil || resp.StatusCode != 200 {
			return fmt.Errorf("canary %s after the sequence: %v (status %v)", r.Path, err, resp)
		}
		if r.Path == "/robots.txt" && string(body) != "User-agent: *\nDisallow: /\n" {
			return fmt.Errorf("canary /robots.txt body %q", body)
		}
	}
	cb, _ := (&messages.ClientPollRequest{Offer: "fresh", NAT: "restricted"}).EncodeClientPollRequest()
	conn, err := net.DialTimeout("tcp", brokerAddr, 5*time.Second)
	if err != nil {
		return err
	}
	defer conn.Close()
	conn.SetDeadline(time.Now().Add(15 * time.Second))
	conn.Write(render(wreq{Method: "POST", Path: "/client", Body: cb}))
	_, body, err := readResp(bufio.NewReader(conn), "POST")
	if err != nil || !strings.Contains(string(body), "no snowflake proxies") {
		return fmt.Errorf("canary client poll after the sequence: %v %q", err, body)
	}
	return nil
}

func runWire(_ *testing.T, c wcase) error {
	if err := startBroker(); err != nil {
		return fmt.Errorf("harness: %v", err)
	}
	if err := exchange(c); err != nil {
		return err
	}
	return canaries()
}

var uWire = vstat.New("C14", "c14_wire")

func init() { vstat.Register(uWire, runWire) }

func genReq(t *rapid.T) (wreq, string) {
	poll, _ := messages.EncodeProxyPollRequestWithRelayPrefix("sid-w", "standalone", "restricted", 0, "")
	ans, _ := messages.EncodeAnswerRequest("an answer", "sid-w")
	cl, _ := (&messages.ClientPollRequest{Offer: "an offer", NAT: "unrestricted"}).EncodeClientPollRequest()
	r := wreq{Headers: map[string]string{}}
	r.Method = rapid.SampledFrom([]string{"POST", "POST", "GET", "OPTIONS", "HEAD", "PUT", "JUNK"}).Draw(t, "method")
	r.Path = rapid.SampledFrom([]string{"/proxy", "/client", "/client", "/answer", "/debug", "/metrics", "/prometheus", "/robots.txt", "/amp/client/" + amp.EncodePath(cl), "/amp/client/0junk", "/nowhere", "/client/"}).Draw(t, "path")
	lbl := "other"
	switch rapid.IntRange(0, 8).Draw(t, "body") {
	case 0:
		r.Body = cl
	case 1:
		r.Body = ans
	case 2:
		// a poll that is answered at once: restricted proxies are never matched with the unrestricted... keep it invalid instead
		r.Body = poll[:len(poll)-3]
	case 3:
		r.Body = []byte("{\"type\":\"offer\",\"sdp\":\"legacy\"}")
		r.Headers["Snowflake-NAT-Type"] = rapid.SampledFrom([]string{"unknown", "bogus", "restricted", ""}).Draw(t, "nat")
		lbl = "legacy"
	case 4:
		n := rapid.SampledFrom([]int{99999, 100000, 100001, 300000}).Draw(t, "size")
		r.Body = bytes.Repeat([]byte("x"), n)
		copy(r.Body, "1.0\n{\"offer\":\"")
		lbl = "size limit"
	case 5:
		r.Body = rapid.SliceOfN(rapid.Byte(), 0, 100).Draw(t, "random")
	case 6:
		b := append([]byte{}, cl...)
		b[rapid.IntRange(0, len(b)-1).Draw(t, "pos")] = rapid.Byte().Draw(t, "val")
		r.Body = b
		lbl = "mutated"
	}
	// most bodies go to the route that parses them (and with POST), so that the handlers' logic is reached
	if rapid.IntRange(0, 3).Draw(t, "route") != 0 {
		switch {
		case lbl == "legacy" || lbl == "mutated" || lbl == "size limit" || bytes.Equal(r.Body, cl):
			r.Method, r.Path = "POST", "/client"
		case bytes.Equal(r.Body, ans):
			r.Method, r.Path = "POST", "/answer"
		case len(r.Body) > 0 && r.Body[0] == '{':
			r.Method, r.Path = "POST", "/proxy"
		}
	}
	r.Chunked = rapid.IntRange(0, 3).Draw(t, "chunked") == 0 && len(r.Body) > 0
	r.Expect = rapid.IntRange(0, 4).Draw(t, "expect") == 0 && len(r.Body) > 0
	return r, lbl
}

func TestVerifC14Wire(t *testing.T) {
	defer uWire.Flush()
	defer func() {
		if brokerCmd != nil && brokerCmd.Process != nil {
			brokerCmd.Process.Kill()
		}
	}()
	start := time.Now()
	rapid.Check(t, func(rt *rapid.T) {
		if time.Since(start) > time.Duration(vstat.Pick(60, 400))*time.Second {
			return // time budget of this real-time unit used up: the remaining iterations are empty (not counted as cases)
		}
		var c wcase
		n := rapid.IntRange(1, 8).Draw(rt, "n")
		nt := false
		var labels []string
		for i := 0; i < n; i++ {
			r, l := genReq(rt)
			if l != "other" {
				nt = true
				labels = append(labels, l)
			}
			c.Reqs = append(c.Reqs, r)
		}
		c.Pipelined = rapid.Bool().Draw(rt, "pipelined")
		if c.Pipelined {
			labels = append(labels, "pipelined")
		}
		vstat.Run(uWire, t, rt, c, nt, labels, runWire)
	})
}

func TestVerifReplay(t *testing.T) { vstat.RunReplays(t) }
