// C14, unit c14_metrics_growth: /metrics while the metrics log grows. The broker appends to the very file it
// serves at /metrics, so a download can overlap an append; the response must still be complete and well formed
// and the requests that follow on the connection must be answered. Strictly serial exchanges (a request is
// written only after the previous response has been read completely), so that no TCP-level effect of closing
// a connection with unread input can play a role. The log is larger than the loopback socket buffers: when the
// harness has read the response header only, the handler is still in the middle of the file, and the harness
// (which owns the schedule) appends at that moment.
package c14wire

import (
	"bufio"
	"bytes"
	"fmt"
	"io"
	"net"
	"net/http"
	"os"
	"os/exec"
	"path/filepath"
	"strconv"
	"strings"
	"testing"
	"time"

	"pgregory.net/rapid"
	"verif.local/vstat"
)

type gstep struct {
	Method string `json:"method"` // GET or HEAD
	Path   string `json:"path"`   // /metrics or /robots.txt
	// for GET /metrics: append AppendBytes to the log after AppendAfter body bytes have been read (0 = right
	// after the response header); -1 = before the request is written
	AppendAfter int `json:"append_after"`
	AppendBytes int `json:"append_bytes"`
}

type gcase struct {
	Steps []gstep `json:"steps"`
}

const growLogSize = 24 << 20

var (
	growAddr string
	growCmd  *exec.Cmd
	growLog  string
)

func startGrowBroker() error {
	if growCmd != nil {
		return nil
	}
	dir, err := os.MkdirTemp(os.Getenv("VERIF_OUT"), "grow")
	if err != nil {
		return err
	}
	bin := filepath.Join(dir, "broker")
	gobin := os.Getenv("VERIF_GO")
	if gobin == "" {
		gobin = "go"
	}
	repo := os.Getenv("VERIF_REPO")
	if repo == "" {
		repo = "/repo"
	}
	b := exec.Command(gobin, "build", "-ldflags=-checklinkname=0", "-o", bin, "./broker")
	b.Dir = repo
	b.Env = append(os.Environ(), "GOFLAGS=-mod=mod", "GOPROXY=off", "GOSUMDB=off", "GOTOOLCHAIN=local")
	if out, err := b.CombinedOutput(); err != nil {
		return fmt.Errorf("building broker: %v\n%s", err, out)
	}
	l, _ := net.Listen("tcp", "127.0.0.1:0")
	growAddr = l.Addr().String()
	l.Close()
	growLog = filepath.Join(dir, "metrics.log")
	mf, err := os.Create(growLog)
	if err != nil {
		return err
	}
	line := []byte("snowflake-stats-end 2026-01-01 00:00:00 (86400 s) " + strings.Repeat("y", 205) + "\n")
	blk := bytes.Repeat(line, 4096)
	for n := 0; n < growLogSize; n += len(blk) {
		if _, err := mf.Write(blk); err != nil {
			return err
		}
	}
	mf.Close()
	growCmd = exec.Command(bin, "-addr", growAddr, "-disable-tls", "-disable-geoip", "-metrics-log", growLog)
	lf, _ := os.Create(filepath.Join(dir, "broker.log"))
	growCmd.Stdout, growCmd.Stderr = lf, lf
	if err := growCmd.Start(); err != nil {
		return err
	}
	go growCmd.Wait()
	_, ps, _ := net.SplitHostPort(growAddr)
	port, _ := strconv.Atoi(ps)
	if !vstat.WaitListener(growCmd.Process.Pid, port, 10*time.Second) {
		growCmd.Process.Kill()
		growCmd = nil
		return fmt.Errorf("broker did not come up on %s (port taken by another process?)", growAddr)
	}
	return nil
}

func appendLog(n int) error {
	if n <= 0 {
		return nil
	}
	f, err := os.OpenFile(growLog, os.O_WRONLY|os.O_APPEND, 0644)
	if err != nil {
		return err
	}
	defer f.Close()
	b := bytes.Repeat([]byte("z"), n)
	b[n-1] = '\n'
	_, err = f.Write(b)
	return err
}

func logSize() int64 {
	fi, err := os.Stat(growLog)
	if err != nil {
		return -1
	}
	return fi.Size()
}

func runGrowth(_ *testing.T, c gcase) error {
	if err := startGrowBroker(); err != nil {
		return fmt.Errorf("harness: %v", err)
	}
	conn, err := net.DialTimeout("tcp", growAddr, 5*time.Second)
	if err != nil {
		return fmt.Errorf("harness: dial: %v", err)
	}
	defer func() { conn.Close() }()
	br := bufio.NewReader(conn)
	for i, s := range c.Steps {
		conn.SetDeadline(time.Now().Add(60 * time.Second))
		what := fmt.Sprintf("step #%d (%s %s, append %d bytes after %d body bytes)", i, s.Method, s.Path, s.AppendBytes, s.AppendAfter)
		before := logSize()
		if s.AppendAfter < 0 {
			if err := appendLog(s.AppendBytes); err != nil {
				return fmt.Errorf("harness: append: %v", err)
			}
			before = logSize()
		}
		if _, err := conn.Write(render(wreq{Method: s.Method, Path: s.Path})); err != nil {
			return fmt.Errorf("%s: writing the request on a connection the broker had not announced it would close: %v", what, err)
		}
		resp, err := http.ReadResponse(br, &http.Request{Method: s.Method})
		if err != nil {
			return fmt.Errorf("%s: no well-formed response: %s", what, clip(fmt.Sprint(err)))
		}
		if resp.StatusCode != 200 {
			return fmt.Errorf("%s: status %d", what, resp.StatusCode)
		}
		var body []byte
		if s.Method == "GET" && s.Path == "/metrics" && s.AppendAfter >= 0 {
			head := make([]byte, s.AppendAfter)
			if _, err := io.ReadFull(resp.Body, head); err != nil {
				return fmt.Errorf("%s: response body ended after fewer than %d bytes of a log of %d: %v", what, s.AppendAfter, before, err)
			}
			if err := appendLog(s.AppendBytes); err != nil {
				return fmt.Errorf("harness: append: %v", err)
			}
			rest, err := io.ReadAll(resp.Body)
			body = append(head, rest...)
			if err != nil {
				return fmt.Errorf("%s: incomplete response: %d body bytes read (Content-Length %d, Transfer-Encoding %v; the log had %d bytes before the request and has %d now): %v", what, len(body), resp.ContentLength, resp.TransferEncoding, before, logSize(), err)
			}
		} else {
			body, err = io.ReadAll(resp.Body)
			if err != nil {
				return fmt.Errorf("%s: incomplete response after %d body bytes: %v", what, len(body), err)
			}
		}
		resp.Body.Close()
		after := logSize()
		switch {
		case s.Method == "HEAD":
			// ReadResponse gives a HEAD response no body; anything the broker sent after the header shows as a
			// malformed response to the next step
		case s.Path == "/robots.txt":
			if string(body) != "User-agent: *\nDisallow: /\n" {
				return fmt.Errorf("%s: body %q", what, clip(string(body)))
			}
		default:
			// the log only grows (the harness is its only writer: the broker's own period is 24 h): the body
			// is a copy of the file up to some point between its size at the request and its size now
			if int64(len(body)) < before || int64(len(body)) > after {
				return fmt.Errorf("%s: the body has %d bytes, the log had %d bytes before the request and %d after the response", what, len(body), before, after)
			}
			if err := sameAsLog(body); err != nil {
				return fmt.Errorf("%s: %v", what, err)
			}
		}
		if resp.Close {
			conn.Close()
			if conn, err = net.DialTimeout("tcp", growAddr, 5*time.Second); err != nil {
				return fmt.Errorf("the broker no longer accepts connections: %v", err)
			}
			br = bufio.NewReader(conn)
		}
	}
	// the connection is still usable: one more exchange on it
	conn.SetDeadline(time.Now().Add(30 * time.Second))
	if _, err := conn.Write(render(wreq{Method: "GET", Path: "/robots.txt"})); err != nil {
		return fmt.Errorf("after the sequence: writing GET /robots.txt on the kept-alive connection: %v", err)
	}
	resp, body, err := readResp(br, "GET")
	if err != nil || resp.StatusCode != 200 || string(body) != "User-agent: *\nDisallow: /\n" {
		return fmt.Errorf("after the sequence: GET /robots.txt on the same connection: %s (body %q)", clip(fmt.Sprint(err)), clip(string(body)))
	}
	return nil
}

func sameAsLog(body []byte) error {
	f, err := os.Open(growLog)
	if err != nil {
		return fmt.Errorf("harness: %v", err)
	}
	defer f.Close()
	buf := make([]byte, 1<<20)
	off := 0
	for off < len(body) {
		n, err := f.Read(buf)
		if n == 0 {
			return fmt.Errorf("harness: log shorter than the body: %v", err)
		}
		if n > len(body)-off {
			n = len(body) - off
		}
		if !bytes.Equal(buf[:n], body[off:off+n]) {
			return fmt.Errorf("the body differs from the log between offsets %d and %d", off, off+n)
		}
		off += n
	}
	return nil
}

var uGrow = vstat.New("C14", "c14_metrics_growth")

func init() { vstat.Register(uGrow, runGrowth) }

func TestVerifC14MetricsGrowth(t *testing.T) {
	defer uGrow.Flush()
	defer func() {
		if growCmd != nil && growCmd.Process != nil {
			growCmd.Process.Kill()
		}
	}()
	start := time.Now()
	rapid.Check(t, func(rt *rapid.T) {
		if time.Since(start) > time.Duration(vstat.Pick(60, 300))*time.Second {
			return // time budget of this real-time unit used up: the remaining iterations are empty (not counted as cases)
		}
		var c gcase
		n := rapid.IntRange(1, 4).Draw(rt, "n")
		nt := false
		var labels []string
		for i := 0; i < n; i++ {
			var s gstep
			switch rapid.IntRange(0, 5).Draw(rt, "kind") {
			case 0:
				s = gstep{Method: "GET", Path: "/robots.txt"}
			case 1:
				s = gstep{Method: "HEAD", Path: "/metrics"}
				labels = append(labels, "HEAD /metrics")
			default:
				s = gstep{Method: "GET", Path: "/metrics"}
				s.AppendAfter = rapid.SampledFrom([]int{-1, 0, 0, 1, 4096, 1 << 20, growLogSize / 2, growLogSize - 1}).Draw(rt, "after")
				s.AppendBytes = rapid.SampledFrom([]int{0, 1, 23, 23, 4096, 100000}).Draw(rt, "bytes")
				if s.AppendAfter >= 0 && s.AppendBytes > 0 {
					nt = true
					labels = append(labels, "append during download")
				}
			}
			c.Steps = append(c.Steps, s)
		}
		vstat.Run(uGrow, t, rt, c, nt, labels, runGrowth)
	})
}
