// C01 (tier 2) whole system: the unmodified broker and proxy BINARIES as processes
// (killed, frozen, terminated, replaced), the real client library (rendezvous, WebRTC,
// Peers, staleness detection, redial) and the real server library in the harness process,
// a fake RFC 5780 STUN responder so that the client learns it is "unrestricted", a TCP
// forwarder as the relay address (cut on demand) and a reverse proxy in front of the
// broker (client answers lost or delayed). Thorough tier only: each proxy death costs the
// client's 20 s staleness constant.
package sys

import (
	"bufio"
	"fmt"
	"io"
	"log"
	"net"
	"net/http"
	"net/http/httputil"
	"net/url"
	"os"
	"os/exec"
	"path/filepath"
	"strings"
	"sync"
	"sync/atomic"
	"syscall"
	"testing"
	"time"

	sf "git.torproject.org/pluggable-transports/snowflake.git/v2/client/lib"
	"github.com/gorilla/websocket"
	"github.com/pion/stun"
	"pgregory.net/rapid"
	"verif.local/vstat"
	"verifext/rig"
)

// ---------------------------------------------------------------------------
// fake STUN with OTHER-ADDRESS (same IP, other port)

func startSTUN() (addr string, err error) {
	a, err := net.ListenUDP("udp4", &net.UDPAddr{IP: net.IPv4(127, 0, 0, 1)})
	if err != nil {
		return "", err
	}
	b, err := net.ListenUDP("udp4", &net.UDPAddr{IP: net.IPv4(127, 0, 0, 1)})
	if err != nil {
		return "", err
	}
	other := b.LocalAddr().(*net.UDPAddr)
	serve := func(c *net.UDPConn) {
		buf := make([]byte, 1500)
		for {
			n, from, err := c.ReadFromUDP(buf)
			if err != nil {
				return
			}
			m := new(stun.Message)
			m.Raw = append([]byte{}, buf[:n]...)
			if m.Decode() != nil || m.Type != stun.BindingRequest {
				continue
			}
			resp, err := stun.Build(stun.NewTransactionIDSetter(m.TransactionID), stun.BindingSuccess,
				&stun.XORMappedAddress{IP: from.IP, Port: from.Port},
				&stun.OtherAddress{IP: other.IP, Port: other.Port})
			if err != nil {
				continue
			}
			c.WriteToUDP(resp.Raw, from)
		}
	}
	go serve(a)
	go serve(b)
	return a.LocalAddr().String(), nil
}

// ---------------------------------------------------------------------------
// relay forwarder: proxies connect here; everything is forwarded to the server under test

type relayFwd struct {
	target atomic.Value // string: where relay connections are forwarded to
	ln     net.Listener
	mu     sync.Mutex
	conns  map[net.Conn]net.Conn
	total  int64
	// blackhole: relay connections that silently stop forwarding in both directions and stay open
	// (a network partition between proxy and bridge: no FIN, no RST; the proxy process stays alive
	// and keeps answering ICE keep-alives - from the client's side the proxy has frozen)
	holes    map[net.Conn]*int32
	holeNext int32        // this many of the next accepted connections are blackholes from the start
	onAccept atomic.Value // func(): called once, synchronously, when the next relay connection arrives (before a byte is forwarded)
}

// wsFrag is an optional second hop behind the TCP forwarder: a WebSocket reverse proxy (as a bridge
// operator may run in front of the server) that re-fragments every message into frames of at most
// ~300 bytes. Message boundaries and frame sizes carry no meaning on a carrier; code that takes one
// Read for one packet is exposed by it.
type wsFrag struct {
	ln     net.Listener
	target atomic.Value // string host:port
}

func startWSFrag() (*wsFrag, error) {
	ln, err := net.Listen("tcp", "127.0.0.1:0")
	if err != nil {
		return nil, err
	}
	f := &wsFrag{ln: ln}
	up := websocket.Upgrader{ReadBufferSize: 4096, WriteBufferSize: 300, CheckOrigin: func(*http.Request) bool { return true }}
	srv := &http.Server{Handler: http.HandlerFunc(func(w http.ResponseWriter, req *http.Request) {
		t, _ := f.target.Load().(string)
		d := websocket.Dialer{ReadBufferSize: 4096, WriteBufferSize: 300, HandshakeTimeout: 10 * time.Second}
		out, _, err := d.Dial("ws://"+t+"/?"+req.URL.RawQuery, nil)
		if err != nil {
			http.Error(w, "bad gateway", 502)
			return
		}
		in, err := up.Upgrade(w, req, nil)
		if err != nil {
			out.Close()
			return
		}
		cp := func(dst, src *websocket.Conn) {
			defer dst.Close()
			defer src.Close()
			buf := make([]byte, 200)
			for {
				mt, r, err := src.NextReader()
				if err != nil {
					return
				}
				wr, err := dst.NextWriter(mt)
				if err != nil {
					return
				}
				if _, err := io.CopyBuffer(wr, r, buf); err != nil {
					return
				}
				if wr.Close() != nil {
					return
				}
			}
		}
		go cp(out, in)
		cp(in, out)
	})}
	go srv.Serve(ln)
	return f, nil
}

func startRelay(target string) (*relayFwd, error) {
	ln, err := net.Listen("tcp", "127.0.0.1:0")
	if err != nil {
		return nil, err
	}
	f := &relayFwd{ln: ln, conns: map[net.Conn]net.Conn{}, holes: map[net.Conn]*int32{}}
	f.target.Store(target)
	go func() {
		for {
			c, err := ln.Accept()
			if err != nil {
				return
			}
			if cb, _ := f.onAccept.Swap((func())(nil)).(func()); cb != nil {
				cb()
			}
			s, err := net.Dial("tcp", f.target.Load().(string))
			if err != nil {
				c.Close()
				continue
			}
			atomic.AddInt64(&f.total, 1)
			hole := new(int32)
			if n := atomic.LoadInt32(&f.holeNext); n > 0 && atomic.CompareAndSwapInt32(&f.holeNext, n, n-1) {
				*hole = 1
			}
			f.mu.Lock()
			f.conns[c] = s
			f.holes[c] = hole
			f.mu.Unlock()
			cp := func(dst, src net.Conn) {
				buf := make([]byte, 32*1024)
				for {
					if atomic.LoadInt32(hole) != 0 {
						// swallow nothing, forward nothing, close nothing: wait until somebody closes the connection
						time.Sleep(50 * time.Millisecond)
						f.mu.Lock()
						_, open := f.conns[c]
						f.mu.Unlock()
						if !open {
							break
						}
						continue
					}
					src.SetReadDeadline(time.Now().Add(100 * time.Millisecond))
					n, err := src.Read(buf)
					if n > 0 && atomic.LoadInt32(hole) == 0 {
						if _, werr := dst.Write(buf[:n]); werr != nil {
							break
						}
					}
					if err != nil {
						if ne, ok := err.(net.Error); ok && ne.Timeout() {
							continue
						}
						break
					}
				}
				dst.Close()
				src.Close()
				f.mu.Lock()
				delete(f.conns, c)
				delete(f.holes, c)
				f.mu.Unlock()
			}
			go cp(s, c)
			go cp(c, s)
		}
	}()
	return f, nil
}

// blackholeAll turns every relay connection currently open into a blackhole.
func (f *relayFwd) blackholeAll() int {
	f.mu.Lock()
	defer f.mu.Unlock()
	n := 0
	for _, h := range f.holes {
		atomic.StoreInt32(h, 1)
		n++
	}
	return n
}

// cutAll closes every relay connection currently open (TCP cut between proxy and server).
func (f *relayFwd) cutAll(reset bool) int {
	f.mu.Lock()
	defer f.mu.Unlock()
	n := 0
	for c, s := range f.conns {
		if reset {
			if tc, ok := c.(*net.TCPConn); ok {
				tc.SetLinger(0)
			}
			if tc, ok := s.(*net.TCPConn); ok {
				tc.SetLinger(0)
			}
		}
		c.Close()
		s.Close()
		n++
	}
	return n
}

// ---------------------------------------------------------------------------
// environment of one test process

type env struct {
	dir       string
	bin       string
	stun      string
	relay     *relayFwd
	frag      *wsFrag
	brokerURL string // through the reverse proxy
	broker    *exec.Cmd
	loseNext  int32      // client poll responses to drop
	delayNext int64      // ms to delay the next client poll response
	pmu       sync.Mutex // guards proxies
	proxies   []*exec.Cmd
	started   int64
	// all-binaries mode
	rigAddr    string
	serverAddr string // WebSocket address of the server BINARY
	server     *exec.Cmd
	clientN    int64
}

func buildBinary(dir, name string) (string, error) {
	if pre := os.Getenv("VERIF_SYSBIN"); pre != "" {
		p := filepath.Join(pre, name)
		if _, err := os.Stat(p); err == nil {
			return p, nil
		}
	}
	out := filepath.Join(dir, name)
	gobin := os.Getenv("VERIF_GO")
	if gobin == "" {
		gobin = "go"
	}
	repo := os.Getenv("VERIF_REPO")
	if repo == "" {
		repo = "/repo"
	}
	args := []string{"build", "-ldflags=-checklinkname=0", "-o", out}
	if os.Getenv("VERIF_SYS_RACE") == "1" {
		args = append(args, "-race") // C20: the binaries report their own races on stderr
	}
	cmd := exec.Command(gobin, append(args, "./"+name)...)
	cmd.Dir = repo
	cmd.Env = append(os.Environ(), "GOFLAGS=-mod=mod", "GOPROXY=off", "GOSUMDB=off", "GOTOOLCHAIN=local")
	if b, err := cmd.CombinedOutput(); err != nil {
		return "", fmt.Errorf("building %s: %v\n%s", name, err, b)
	}
	return out, nil
}

func freePort() int {
	l, _ := net.Listen("tcp", "127.0.0.1:0")
	defer l.Close()
	return l.Addr().(*net.TCPAddr).Port
}

func setup(r *rig.Rig) (*env, error) {
	dir, err := os.MkdirTemp(os.Getenv("VERIF_OUT"), "sys")
	if err != nil {
		return nil, err
	}
	e := &env{dir: dir}
	e.rigAddr = r.Addr
	for _, b := range []string{"broker", "proxy", "server", "client"} {
		if _, err := buildBinary(dir, b); err != nil {
			return nil, err
		}
	}
	e.bin = dir
	if pre := os.Getenv("VERIF_SYSBIN"); pre != "" {
		e.bin = pre
	}
	if e.stun, err = startSTUN(); err != nil {
		return nil, err
	}
	if e.relay, err = startRelay(r.Addr); err != nil {
		return nil, err
	}
	if e.frag, err = startWSFrag(); err != nil {
		return nil, err
	}
	// broker
	bl := filepath.Join(dir, "bridges.jsonl")
	os.WriteFile(bl, []byte(fmt.Sprintf("{\"displayName\":\"default\", \"webSocketAddress\":\"ws://%s/\", \"fingerprint\":\"2B280B23E1107BB62ABFC40DDCC8824814F80A72\"}\n", e.relay.ln.Addr().String())), 0o644)
	bport := freePort()
	e.broker = exec.Command(filepath.Join(e.bin, "broker"), "-addr", fmt.Sprintf("127.0.0.1:%d", bport), "-disable-tls", "-disable-geoip",
		"-bridge-list-path", bl, "-allowed-relay-pattern", "$", "-default-relay-pattern", "$", "-metrics-log", filepath.Join(dir, "metrics.log"))
	bl2, _ := os.Create(filepath.Join(dir, "broker.log"))
	e.broker.Stderr, e.broker.Stdout = bl2, bl2
	if os.Getenv("VERIF_SYS_RACE") == "1" {
		e.broker.Env = append(os.Environ(), "GORACE=halt_on_error=0 log_path="+filepath.Join(dir, "race-broker"))
	}
	if err := e.broker.Start(); err != nil {
		return nil, err
	}
	if !vstat.WaitListener(e.broker.Process.Pid, bport, 15*time.Second) {
		e.broker.Process.Kill()
		return nil, fmt.Errorf("the broker binary does not listen on port %d (taken by another process after it was picked?)", bport)
	}
	// reverse proxy in front of the broker for the client's requests
	target, _ := url.Parse(fmt.Sprintf("http://127.0.0.1:%d/", bport))
	rp := httputil.NewSingleHostReverseProxy(target)
	rp.ErrorLog = log.New(io.Discard, "", 0)
	rp.ModifyResponse = func(resp *http.Response) error {
		if strings.HasSuffix(resp.Request.URL.Path, "/client") {
			if d := atomic.SwapInt64(&e.delayNext, 0); d > 0 {
				time.Sleep(time.Duration(d) * time.Millisecond)
			}
			if atomic.LoadInt32(&e.loseNext) > 0 {
				atomic.AddInt32(&e.loseNext, -1)
				return fmt.Errorf("harness: broker answer lost")
			}
		}
		return nil
	}
	rl, err := net.Listen("tcp", "127.0.0.1:0")
	if err != nil {
		return nil, err
	}
	go http.Serve(rl, rp)
	e.brokerURL = "http://" + rl.Addr().String() + "/"
	return e, nil
}

// startServerBinary starts the real server binary as a managed transport; its ORPort is a
// listener of the harness whose connections are served by the rig's bridge side.
func (e *env) startServerBinary(r *rig.Rig) error {
	if e.server != nil {
		return nil
	}
	orln, err := net.Listen("tcp", "127.0.0.1:0")
	if err != nil {
		return err
	}
	go func() {
		for {
			c, err := orln.Accept()
			if err != nil {
				return
			}
			go r.ServeConn(c)
		}
	}()
	port := freePort()
	st := filepath.Join(e.dir, "server-state")
	os.MkdirAll(st, 0o755)
	cmd := exec.Command(filepath.Join(e.bin, "server"), "-disable-tls", "-log", filepath.Join(e.dir, "server.log"))
	cmd.Env = append(os.Environ(), "TOR_PT_MANAGED_TRANSPORT_VER=1", "TOR_PT_SERVER_TRANSPORTS=snowflake",
		fmt.Sprintf("TOR_PT_SERVER_BINDADDR=snowflake-127.0.0.1:%d", port), "TOR_PT_ORPORT="+orln.Addr().String(), "TOR_PT_STATE_LOCATION="+st)
	if os.Getenv("VERIF_SYS_RACE") == "1" {
		cmd.Env = append(cmd.Env, "GORACE=halt_on_error=0 log_path="+filepath.Join(e.dir, "race-server"))
	}
	out, _ := cmd.StdoutPipe()
	cmd.Stderr = io.Discard
	if _, err := cmd.StdinPipe(); err != nil {
		return err
	}
	if err := cmd.Start(); err != nil {
		return err
	}
	e.server = cmd
	sc := bufio.NewScanner(out)
	ok := make(chan bool, 1)
	go func() {
		for sc.Scan() {
			if sc.Text() == "SMETHODS DONE" {
				ok <- true
			}
		}
	}()
	select {
	case <-ok:
	case <-time.After(15 * time.Second):
		return fmt.Errorf("server binary did not finish its set-up")
	}
	e.serverAddr = fmt.Sprintf("127.0.0.1:%d", port)
	if !vstat.WaitListener(cmd.Process.Pid, port, 15*time.Second) {
		cmd.Process.Kill()
		return fmt.Errorf("the server binary does not listen on port %d (taken by another process after it was picked?)", port)
	}
	for i := 0; i < 200; i++ {
		c, err := net.DialTimeout("tcp", e.serverAddr, 100*time.Millisecond)
		if err == nil {
			c.Close()
			return nil
		}
		time.Sleep(20 * time.Millisecond)
	}
	return fmt.Errorf("server binary does not listen on %s", e.serverAddr)
}

// dialClientBinary starts the real client binary as a managed transport and opens a SOCKS5
// connection through it; closing the returned conn terminates the binary.
func (e *env) dialClientBinary(max int) (net.Conn, error) {
	n := atomic.AddInt64(&e.clientN, 1)
	st := filepath.Join(e.dir, fmt.Sprintf("client-state-%d", n))
	os.MkdirAll(st, 0o755)
	cmd := exec.Command(filepath.Join(e.bin, "client"), "-url", e.brokerURL, "-ice", "stun:"+e.stun, "-max", fmt.Sprint(max),
		"-keep-local-addresses", "-log", filepath.Join(e.dir, fmt.Sprintf("client%d.log", n)))
	cmd.Env = append(os.Environ(), "TOR_PT_MANAGED_TRANSPORT_VER=1", "TOR_PT_CLIENT_TRANSPORTS=snowflake", "TOR_PT_STATE_LOCATION="+st)
	if os.Getenv("VERIF_SYS_RACE") == "1" {
		cmd.Env = append(cmd.Env, "GORACE=halt_on_error=0 log_path="+filepath.Join(e.dir, fmt.Sprintf("race-client%d", n)))
	}
	out, _ := cmd.StdoutPipe()
	cmd.Stderr = io.Discard
	if _, err := cmd.StdinPipe(); err != nil {
		return nil, err
	}
	if err := cmd.Start(); err != nil {
		return nil, err
	}
	go cmd.Wait()
	socks := make(chan string, 1)
	go func() {
		sc := bufio.NewScanner(out)
		for sc.Scan() {
			if l := sc.Text(); strings.HasPrefix(l, "CMETHOD snowflake socks5 ") {
				socks <- strings.TrimPrefix(l, "CMETHOD snowflake socks5 ")
			}
		}
	}()
	var addr string
	select {
	case addr = <-socks:
	case <-time.After(15 * time.Second):
		cmd.Process.Kill()
		return nil, fmt.Errorf("client binary did not announce its SOCKS port")
	}
	c, err := net.DialTimeout("tcp", addr, 5*time.Second)
	if err != nil {
		cmd.Process.Kill()
		return nil, err
	}
	c.SetDeadline(time.Now().Add(15 * time.Second))
	c.Write([]byte{5, 1, 0})
	var r2 [2]byte
	if _, err := io.ReadFull(c, r2[:]); err != nil {
		cmd.Process.Kill()
		return nil, fmt.Errorf("socks: %v", err)
	}
	c.Write([]byte{5, 1, 0, 1, 192, 0, 2, 99, 0, 80})
	var rep [10]byte
	if _, err := io.ReadFull(c, rep[:]); err != nil || rep[1] != 0 {
		cmd.Process.Kill()
		return nil, fmt.Errorf("socks connect: %v %v", rep, err)
	}
	c.SetDeadline(time.Time{})
	return &binConn{Conn: c, cmd: cmd, logPath: filepath.Join(e.dir, fmt.Sprintf("client%d.log", n))}, nil
}

type binConn struct {
	net.Conn
	cmd     *exec.Cmd
	once    sync.Once
	logPath string
}

func (b *binConn) Close() error {
	err := b.Conn.Close()
	b.once.Do(func() {
		b.cmd.Process.Signal(syscall.SIGCONT)
		b.cmd.Process.Signal(syscall.SIGTERM)
		time.AfterFunc(5*time.Second, func() { b.cmd.Process.Kill() })
	})
	return err
}

// setRelayTarget: proxies -> TCP forwarder (faults) -> [re-fragmenting WebSocket reverse proxy ->] server
func (e *env) setRelayTarget(server string, frag bool) {
	if frag {
		e.frag.target.Store(server)
		e.relay.target.Store(e.frag.ln.Addr().String())
	} else {
		e.relay.target.Store(server)
	}
}

func (e *env) startProxy() *exec.Cmd {
	n := atomic.AddInt64(&e.started, 1)
	args := []string{"-broker", strings.TrimSuffix(e.brokerURLDirect(), ""), "-stun", "stun:" + e.stun,
		"-relay", "ws://" + e.relay.ln.Addr().String() + "/", "-allowed-relay-hostname-pattern", "$", "-allow-non-tls-relay",
		"-keep-local-addresses"}
	// the logging configurations an operator may use (none of them -unsafe-logging); whatever reaches
	// the log file or stderr is scanned for surviving addresses after every case
	switch n % 3 {
	case 0:
		args = append(args, "-log", filepath.Join(e.dir, fmt.Sprintf("proxy%d.log", n)))
	case 1:
		args = append(args, "-verbose", "-log", filepath.Join(e.dir, fmt.Sprintf("proxy%d.log", n)))
	default:
		args = append(args, "-verbose")
	}
	cmd := exec.Command(filepath.Join(e.bin, "proxy"), args...)
	cmd.Stdout = io.Discard
	if errf, err := os.Create(filepath.Join(e.dir, fmt.Sprintf("proxy%d.stderr.log", n))); err == nil {
		cmd.Stderr = errf
	} else {
		cmd.Stderr = io.Discard
	}
	if os.Getenv("VERIF_SYS_RACE") == "1" {
		cmd.Env = append(os.Environ(), "GORACE=halt_on_error=0 log_path="+filepath.Join(e.dir, fmt.Sprintf("race-proxy%d", n)))
	}
	if err := cmd.Start(); err != nil {
		return nil
	}
	go cmd.Wait()
	e.pmu.Lock()
	e.proxies = append(e.proxies, cmd)
	e.pmu.Unlock()
	return cmd
}

// proxies talk to the broker directly (the reverse proxy only degrades the client's view)
func (e *env) brokerURLDirect() string {
	for _, a := range e.broker.Args {
		if strings.HasPrefix(a, "127.0.0.1:") {
			return "http://" + a + "/"
		}
	}
	return e.brokerURL
}

func (e *env) alive() []*exec.Cmd {
	var out []*exec.Cmd
	e.pmu.Lock()
	defer e.pmu.Unlock()
	for _, p := range e.proxies {
		if p.ProcessState == nil && p.Process != nil && p.Process.Signal(syscall.Signal(0)) == nil {
			out = append(out, p)
		}
	}
	return out
}

func (e *env) killAllProxies() {
	e.pmu.Lock()
	defer e.pmu.Unlock()
	for _, p := range e.proxies {
		if p.Process != nil {
			p.Process.Signal(syscall.SIGCONT)
			p.Process.Kill()
		}
	}
	e.proxies = nil
}

// ---------------------------------------------------------------------------
// case

type fault struct {
	AtMs  int    `json:"at_ms"` // after the stream was opened
	Kind  string `json:"kind"`  // kill | term | freeze | cutrelay | resetrelay | blackhole | loseanswer | delayanswer | newproxy | freezeclient
	Proxy int    `json:"proxy"` // index among live proxies (mod)
	DurMs int    `json:"dur_ms,omitempty"`
	// AtUpBytes: additionally, not before the bridge has verified this many upstream bytes
	AtUpBytes int64 `json:"at_up_bytes,omitempty"`
}

type sysCase struct {
	S        rig.Session `json:"s"`
	Proxies  int         `json:"proxies"`
	Max      int         `json:"max"`
	Faults   []fault     `json:"faults"`
	PreFault string      `json:"prefault,omitempty"` // loseanswer | delayanswer | "" : applied to the very first rendezvous; blackholefirst: the first relay connection of the case never forwards anything
	AllBin   bool        `json:"allbin,omitempty"`   // the client and the server are the real BINARIES too (SOCKS port, ORPort)
	Frag     bool        `json:"frag,omitempty"`     // a re-fragmenting WebSocket reverse proxy sits in front of the server
}

var theEnv *env

const sysStall = 150 * time.Second

// runSys applies the stall rule of DESIGN 4.3 to the whole system: a stalled case is re-run
// alone with a doubled budget; if it stalls again a canary case (no faults, one proxy, 1 KB)
// decides between "the environment is broken" (inconclusive) and a violation.
// ---------------------------------------------------------------------------
// C07 observed at the whole system: the log files the four binaries write (none of them is
// started with -unsafe-logging). Oracle, deliberately narrower than the statement so that it
// can never demand more: a maximal run of address characters that as a whole parses as an IP
// address, IP:port, [IP] or [IP]:port is an address bounded by line boundaries, whitespace or
// punctuation other than ':' - it must not be there.

var logOffsets = map[string]int64{}

func addrToken(tok string) bool {
	tok = strings.Trim(tok, ".")
	if tok == "" {
		return false
	}
	if h, _, err := net.SplitHostPort(tok); err == nil {
		tok = h
	} else if strings.HasPrefix(tok, "[") && strings.HasSuffix(tok, "]") {
		tok = tok[1 : len(tok)-1]
	}
	if i := strings.IndexByte(tok, '%'); i >= 0 {
		tok = tok[:i]
	}
	return net.ParseIP(tok) != nil
}

func isAddrChar(b byte) bool {
	return b >= '0' && b <= '9' || b >= 'a' && b <= 'f' || b >= 'A' && b <= 'F' || b == ':' || b == '.' || b == '[' || b == ']' || b == '%'
}

// scanLogs reads what the binaries appended to their logs since the last call (complete lines only).
func scanLogs(e *env) (lines, placeholders int, survivors []string) {
	files, _ := filepath.Glob(filepath.Join(e.dir, "*.log"))
	for _, f := range files {
		if filepath.Base(f) == "metrics.log" {
			continue
		}
		fh, err := os.Open(f)
		if err != nil {
			continue
		}
		off := logOffsets[f]
		fh.Seek(off, 0)
		b, _ := io.ReadAll(fh)
		fh.Close()
		if i := strings.LastIndexByte(string(b), '\n'); i >= 0 {
			b = b[:i+1]
		} else {
			continue
		}
		logOffsets[f] = off + int64(len(b))
		for _, line := range strings.Split(strings.TrimSuffix(string(b), "\n"), "\n") {
			lines++
			placeholders += strings.Count(line, "[scrubbed]")
			wordy := func(b byte) bool { return b >= 'g' && b <= 'z' || b >= 'G' && b <= 'Z' || b == '_' }
			for i := 0; i < len(line); {
				if !isAddrChar(line[i]) {
					i++
					continue
				}
				j := i
				for j < len(line) && isAddrChar(line[j]) {
					j++
				}
				// a run glued to a letter or '_' on either side is part of a word, not a delimited address;
				// so is one reached through a ':' (the statement excludes ':' as a delimiter)
				// "...: " - a colon followed by whitespace (or the line end) closes an address, as in
				// "dial tcp 127.0.0.1:9: connect: connection refused" (the scrubber's own right delimiter class)
				if j-i > 1 && line[j-1] == ':' && (j == len(line) || line[j] == ' ' || line[j] == '\t') {
					j--
				}
				glued := i > 0 && wordy(line[i-1]) || j < len(line) && wordy(line[j])
				if !glued && addrToken(line[i:j]) {
					l := line
					if len(l) > 300 {
						l = l[:300] + "..."
					}
					survivors = append(survivors, fmt.Sprintf("%s: address %q in line %q", filepath.Base(f), line[i:j], l))
				}
				i = j
			}
		}
	}
	return
}

func runSys(t *testing.T, c sysCase) error {
	err := runSysCase(t, c)
	if theEnv != nil {
		lines, ph, surv := scanLogs(theEnv)
		uSys.Add("log_lines_scanned", int64(lines))
		uSys.Add("log_placeholders_seen", int64(ph))
		uSys.Add("log_addresses_surviving", int64(len(surv)))
		if ph > 0 {
			uSys.Add("cases_with_scrubbed_log_lines", 1)
		}
		if err == nil && len(surv) > 0 && sysPurpose == "c07" {
			return fmt.Errorf("%d address(es) reached the log files of the binaries (none runs with -unsafe-logging); first: %s", len(surv), surv[0])
		}
	}
	return err
}

var sysPurpose = os.Getenv("VERIF_SYS_PURPOSE")

func runSysCase(t *testing.T, c sysCase) error {
	err := runSysOnce(t, c, sysStall)
	if err == nil || !strings.HasPrefix(err.Error(), "STALL:") {
		return err
	}
	uSys.Add("label:stalled once", 1)
	c2 := c
	c2.S.Label ^= 0x0100000000000000
	err2 := runSysOnce(t, c2, 2*sysStall)
	if err2 == nil {
		return nil
	}
	if !strings.HasPrefix(err2.Error(), "STALL:") {
		return err2
	}
	canary := sysCase{Proxies: 1, Max: 1, S: rig.Session{Label: c.S.Label ^ 0x0200000000000000, UpSize: 1000, DownSize: 1000, Carriers: []rig.Carrier{{}}}}
	if cerr := runSysOnce(t, canary, sysStall); cerr != nil {
		return fmt.Errorf("harness: whole-system stall, and the fault-free canary case fails too (%v): environment problem", cerr)
	}
	return fmt.Errorf("stream stalled twice although working proxies were available (and a fault-free canary session completes): %s", strings.TrimPrefix(err2.Error(), "STALL:"))
}

// natTap watches the process' standard logger (the client library logs "NAT Type: x" there).
type natTapT struct {
	mu   sync.Mutex
	last string
	at   time.Time
}

func (n *natTapT) Write(p []byte) (int, error) {
	if i := strings.Index(string(p), "NAT Type: "); i >= 0 {
		v := strings.TrimSpace(string(p)[i+len("NAT Type: "):])
		n.mu.Lock()
		n.last, n.at = v, time.Now()
		n.mu.Unlock()
	}
	return len(p), nil
}

func (n *natTapT) since(t time.Time) string {
	n.mu.Lock()
	defer n.mu.Unlock()
	if n.at.After(t) {
		return n.last
	}
	return ""
}

var natTap = &natTapT{}

func init() { log.SetOutput(natTap) }

func runSysOnce(_ *testing.T, c sysCase, stall time.Duration) error {
	r, err := rig.Get()
	if err != nil {
		return fmt.Errorf("harness: %v", err)
	}
	if theEnv == nil {
		if theEnv, err = setup(r); err != nil {
			return fmt.Errorf("harness: %v", err)
		}
	}
	e := theEnv
	e.killAllProxies()
	for i := 0; i < c.Proxies; i++ {
		if e.startProxy() == nil {
			return fmt.Errorf("harness: cannot start proxy")
		}
	}
	defer e.killAllProxies()
	switch c.PreFault {
	case "loseanswer":
		atomic.StoreInt32(&e.loseNext, 1)
	case "delayanswer":
		atomic.StoreInt64(&e.delayNext, 3000)
	}
	atomic.StoreInt32(&e.relay.holeNext, 0)
	e.relay.onAccept.Store((func())(nil))
	defer e.relay.cutAll(false) // blackholed connections of this case do not outlive it
	if c.PreFault == "freezefirst" {
		// the carrying proxy is stopped (SIGSTOP, never continued) at the moment its data channel has
		// opened and it turns to the relay - before it can pass a single downstream message; a fresh
		// proxy is started shortly afterwards
		e.relay.onAccept.Store(func() {
			for _, p := range e.alive() {
				p.Process.Signal(syscall.SIGSTOP)
			}
			time.AfterFunc(500*time.Millisecond, func() { e.startProxy() })
		})
	}
	var conn io.ReadWriteCloser
	if c.AllBin {
		if err := e.startServerBinary(r); err != nil {
			return fmt.Errorf("harness: server binary: %v", err)
		}
		e.setRelayTarget(e.serverAddr, c.Frag)
		e.relay.cutAll(false)
		if c.PreFault == "blackholefirst" {
			atomic.StoreInt32(&e.relay.holeNext, 1)
		}
		bc, err := e.dialClientBinary(c.Max)
		if err != nil {
			return fmt.Errorf("harness: client binary: %v", err)
		}
		conn = bc
	} else {
		e.setRelayTarget(e.rigAddr, c.Frag)
		if c.PreFault == "blackholefirst" {
			atomic.StoreInt32(&e.relay.holeNext, 1)
		}
		tapStart := time.Now()
		tr, err := sf.NewSnowflakeClient(sf.ClientConfig{BrokerURL: e.brokerURL, ICEAddresses: []string{"stun:" + e.stun}, Max: c.Max, KeepLocalAddresses: true})
		if err != nil {
			return fmt.Errorf("harness: NewSnowflakeClient: %v", err)
		}
		// let the client learn its NAT type from the fake STUN before the first poll: the rig's proxies report
		// NAT "unknown" (no probe server), so only a client that knows it is "unrestricted" can be matched
		natSeen := ""
		for lim := time.Now().Add(12 * time.Second); time.Now().Before(lim); time.Sleep(20 * time.Millisecond) {
			if natSeen = natTap.since(tapStart); natSeen != "" {
				break
			}
		}
		if natSeen != "unrestricted" {
			return fmt.Errorf("harness: the client library determined NAT type %q (fake STUN not answered in time?): no proxy of the rig would be compatible", natSeen)
		}
		lc, err := tr.Dial()
		if err != nil {
			return fmt.Errorf("harness: Dial: %v", err)
		}
		conn = lc
	}
	stop := make(chan struct{})
	var faultsDone int64
	go func() {
		start := time.Now()
		for _, f := range c.Faults {
			select {
			case <-stop:
				return
			case <-time.After(time.Until(start.Add(time.Duration(f.AtMs) * time.Millisecond))):
			}
			if f.AtUpBytes > 0 {
				// byte-triggered: wait until the bridge has verified that many upstream bytes (the fault then
				// falls mid-stream whatever the machine's speed), at most 60 s
				lim := time.Now().Add(60 * time.Second)
				for r.UpGot(c.S.Label) < f.AtUpBytes && time.Now().Before(lim) {
					select {
					case <-stop:
						return
					case <-time.After(2 * time.Millisecond):
					}
				}
			}
			live := e.alive()
			switch f.Kind {
			case "kill", "term", "freeze":
				if len(live) == 0 {
					break
				}
				p := live[f.Proxy%len(live)]
				switch f.Kind {
				case "kill":
					p.Process.Kill()
				case "term":
					p.Process.Signal(syscall.SIGTERM)
				case "freeze":
					p.Process.Signal(syscall.SIGSTOP)
					d := time.Duration(f.DurMs) * time.Millisecond
					time.AfterFunc(d, func() { p.Process.Signal(syscall.SIGCONT) })
				}
			case "freezeclient":
				// all-binaries mode only: the client process is stopped for a while (a suspended laptop);
				// the proxy's client-side carrier makes no progress while the bridge keeps sending
				if bc, ok := conn.(*binConn); ok && bc.cmd.Process != nil {
					// Environment assumption made explicit: the proxies of this rig report NAT "unknown" (no probe
					// server), so only a client that has learnt it is "unrestricted" (fake STUN) can be matched at
					// all. The client binary learns that in the first seconds of a SOCKS connection; a stop before
					// it has done so would leave it "unknown" for good and no proxy of the rig would be compatible -
					// the property's proviso (a working proxy is available) would not hold. The stop therefore
					// waits until the client has logged its NAT type (at most 15 s).
					lim := time.Now().Add(15 * time.Second)
					for time.Now().Before(lim) {
						if b, err := os.ReadFile(bc.logPath); err == nil && strings.Contains(string(b), "NAT Type:") {
							break
						}
						time.Sleep(50 * time.Millisecond)
					}
					proc := bc.cmd.Process
					proc.Signal(syscall.SIGSTOP)
					time.AfterFunc(time.Duration(f.DurMs)*time.Millisecond, func() { proc.Signal(syscall.SIGCONT) })
				}
			case "cutrelay":
				e.relay.cutAll(false)
			case "resetrelay":
				e.relay.cutAll(true)
			case "blackhole":
				e.relay.blackholeAll()
			case "loseanswer":
				atomic.StoreInt32(&e.loseNext, 1)
			case "delayanswer":
				atomic.StoreInt64(&e.delayNext, int64(f.DurMs))
			case "newproxy":
				e.startProxy()
			}
			atomic.AddInt64(&faultsDone, 1)
			// "provided some working proxy eventually becomes available"
			if len(e.alive()) == 0 {
				e.startProxy()
			}
		}
		// after the schedule: make sure a fresh, healthy proxy exists
		time.Sleep(500 * time.Millisecond)
		e.startProxy()
		atomic.AddInt64(&faultsDone, 1)
	}()
	res := r.Drive(&c.S, conn, stall, func() int64 { return atomic.LoadInt64(&faultsDone) + atomic.LoadInt64(&e.started) })
	close(stop)
	conn.Close()
	if res.Err != "" {
		return fmt.Errorf("%s", res.Err)
	}
	if res.Stalled {
		if bc, ok := conn.(*binConn); ok {
			if b, err := os.ReadFile(bc.logPath); err == nil && !strings.Contains(string(b), "NAT Type: unrestricted") {
				return fmt.Errorf("harness: the client binary never learnt that its NAT type is unrestricted (fake STUN not answered in time?): no proxy of the rig is compatible with it, the stall says nothing about the code")
			}
		}
		return fmt.Errorf("STALL: no progress for %v: upstream %d/%d, downstream %d/%d bytes, %d live proxies", stall, res.UpGot, c.S.UpSize, res.DownGot, c.S.DownSize, len(e.alive()))
	}
	if !res.UpDone || !res.DownDone {
		return fmt.Errorf("incomplete: upstream %d/%d, downstream %d/%d", res.UpGot, c.S.UpSize, res.DownGot, c.S.DownSize)
	}
	if res.Accepted != 1 {
		return fmt.Errorf("session surfaced as %d accepted connections, expected exactly one", res.Accepted)
	}
	uSys.Add("relay_connections", atomic.LoadInt64(&e.relay.total))
	return nil
}

var uSys = func() *vstat.Unit {
	if sysPurpose == "c07" {
		return vstat.New("C07", "c07_system")
	}
	return vstat.New("C01", "c01_system")
}()

func init() { vstat.Register(uSys, runSys) }

var counter uint64

func TestVerifC01System(t *testing.T) {
	defer uSys.Flush()
	defer func() {
		if theEnv != nil {
			theEnv.killAllProxies()
			if theEnv.server != nil && theEnv.server.Process != nil {
				theEnv.server.Process.Signal(syscall.SIGTERM)
				defer theEnv.server.Process.Kill()
			}
			if theEnv.broker != nil && theEnv.broker.Process != nil {
				theEnv.broker.Process.Signal(syscall.SIGTERM)
				time.Sleep(200 * time.Millisecond)
				theEnv.broker.Process.Kill()
			}
			if os.Getenv("VERIF_SYS_RACE") == "1" {
				// hand the binaries' own race reports to the driver (it parses this process' output)
				files, _ := filepath.Glob(filepath.Join(theEnv.dir, "race-*"))
				for _, f := range files {
					if b, err := os.ReadFile(f); err == nil {
						fmt.Printf("\n[race report of %s]\n%s\n", filepath.Base(f), b)
					}
				}
			}
		}
	}()
	start := time.Now()
	rapid.Check(t, func(rt *rapid.T) {
		budget := vstat.Pick(100, 1500)
		if sysPurpose == "c07" {
			budget = vstat.Pick(100, 600)
		}
		if time.Since(start) > time.Duration(budget)*time.Second {
			return // time budget of this real-time unit used up: the remaining iterations are empty (not counted as cases)
		}
		counter++
		label := vstat.Seed()<<32 ^ 0x5100000000000000 ^ counter<<8
		c := sysCase{Proxies: rapid.IntRange(1, 3).Draw(rt, "proxies"), Max: rapid.IntRange(1, 2).Draw(rt, "max")}
		c.S = rig.Session{Label: label,
			UpSize:   int64(rapid.SampledFrom([]int{0, 1, 50000, 300000, 2 << 20, 6 << 20}).Draw(rt, "up")),
			DownSize: int64(rapid.SampledFrom([]int{0, 1, 50000, 300000, 2 << 20, 6 << 20}).Draw(rt, "down")),
			Carriers: []rig.Carrier{{}}}
		if rapid.Bool().Draw(rt, "chunk") {
			c.S.UpChunk = []int{rapid.IntRange(100, 70000).Draw(rt, "upchunk")}
			c.S.DownChunk = []int{rapid.IntRange(100, 70000).Draw(rt, "downchunk")}
		}
		c.PreFault = rapid.SampledFrom([]string{"", "", "loseanswer", "delayanswer", "blackholefirst", "freezefirst"}).Draw(rt, "prefault")
		c.AllBin = rapid.Bool().Draw(rt, "allbin")
		c.Frag = rapid.IntRange(0, 2).Draw(rt, "frag") == 0
		nf := rapid.IntRange(0, 3).Draw(rt, "nfaults")
		if sysPurpose == "" && rapid.IntRange(0, 9).Draw(rt, "downlinkstall") == 0 {
			// scenario family "downlink stall": a multi-MiB download through all four binaries while the
			// client process is stopped for longer than any buffer between bridge and client can absorb
			c.AllBin, c.PreFault, nf = true, "", rapid.IntRange(0, 1).Draw(rt, "extrafaults")
			c.S.DownSize = int64(rapid.SampledFrom([]int{2 << 20, 6 << 20}).Draw(rt, "stalldown"))
			c.Faults = append(c.Faults, fault{AtMs: rapid.SampledFrom([]int{300, 1500}).Draw(rt, "stallat"), Kind: "freezeclient", DurMs: rapid.SampledFrom([]int{7000, 12000}).Draw(rt, "stalldur")})
		}
		if sysPurpose == "" && len(c.Faults) == 0 && rapid.IntRange(0, 9).Draw(rt, "silentproxy") == 0 {
			// scenario family "silent proxy": mid-stream (byte-triggered) the carrying proxy's path to the bridge
			// goes silent while the proxy itself stays alive and reachable - only the client's own staleness
			// detection can move the stream to another proxy
			c.PreFault, nf = "", rapid.IntRange(0, 1).Draw(rt, "extrafaults2")
			c.S.UpSize = 2 << 20
			c.S.DownSize = int64(rapid.SampledFrom([]int{2 << 20, 6 << 20}).Draw(rt, "silentdown"))
			c.Faults = append(c.Faults, fault{Kind: "blackhole", AtUpBytes: rapid.Int64Range(100000, 1500000).Draw(rt, "silentat")})
		}
		at := 0
		if len(c.Faults) > 0 {
			at = c.Faults[0].AtMs
		}
		for i := 0; i < nf; i++ {
			at += rapid.SampledFrom([]int{0, 50, 300, 1500, 5000}).Draw(rt, "gap")
			kinds := []string{"kill", "kill", "term", "freeze", "cutrelay", "resetrelay", "blackhole", "loseanswer", "delayanswer", "newproxy"}
			if c.AllBin {
				kinds = append(kinds, "freezeclient", "freezeclient") // only a client that is a process of its own can be stopped
			}
			f := fault{AtMs: at, Kind: rapid.SampledFrom(kinds).Draw(rt, "kind"), Proxy: rapid.IntRange(0, 3).Draw(rt, "which")}
			if f.Kind == "freeze" {
				f.DurMs = rapid.SampledFrom([]int{500, 3000, 25000}).Draw(rt, "freeze")
			}
			if f.Kind == "delayanswer" {
				f.DurMs = rapid.SampledFrom([]int{1000, 5000, 12000}).Draw(rt, "delay")
			}
			if f.Kind == "freezeclient" {
				f.DurMs = rapid.SampledFrom([]int{2000, 7000, 12000}).Draw(rt, "clientfreeze")
			}
			if c.S.UpSize >= 300000 && rapid.IntRange(0, 2).Draw(rt, "bytetrigger") == 0 {
				f.AtUpBytes = rapid.Int64Range(1, c.S.UpSize*3/4).Draw(rt, "atupbytes")
			}
			c.Faults = append(c.Faults, f)
		}
		var labels []string
		for _, f := range c.Faults {
			labels = append(labels, "fault="+f.Kind)
		}
		if c.PreFault != "" {
			labels = append(labels, "first rendezvous: "+c.PreFault)
		}
		if c.Frag {
			labels = append(labels, "re-fragmenting WebSocket reverse proxy in front of the server")
		}
		if c.AllBin {
			labels = append(labels, "all four binaries (SOCKS port to ORPort)")
		} else {
			labels = append(labels, "client and server libraries in the harness process")
		}
		nt := len(c.Faults) > 0 && c.S.UpSize+c.S.DownSize >= 300000
		if sysPurpose == "c07" {
			// many short runs: what matters is the variety of messages (errors carry addresses)
			if c.S.UpSize > 300000 {
				c.S.UpSize = 300000
			}
			if c.S.DownSize > 300000 {
				c.S.DownSize = 300000
			}
			nt = c.AllBin || len(c.Faults) > 0
		}
		uSys.Journal(c)
		vstat.Run(uSys, t, rt, c, nt, labels, runSys)
	})
	uSys.JournalDone()
}

func TestVerifReplay(t *testing.T) { vstat.RunReplays(t) }
