// C07 at the binaries: the proxy, client and server BINARIES are started in the logging
// configurations an operator may use (-log, -verbose, -log-to-state-dir, stderr; never
// -unsafe-logging), pointed at loopback ports that refuse connections so that they log error
// lines carrying addresses, and everything they wrote (log file and stderr) is scanned: a maximal
// run of address characters that as a whole parses as IP, IP:port, [IP] or [IP]:port and is not
// glued to a word or reached through ':' is a survivor.
package c07bin

import (
	"fmt"
	"io"
	"net"
	"os"
	"os/exec"
	"path/filepath"
	"strings"
	"sync"
	"syscall"
	"testing"
	"time"

	_ "pgregory.net/rapid" // the driver passes -rapid.* flags to every harness binary
	"verif.local/vstat"
)

type binCase struct {
	Binary  string `json:"binary"`  // proxy | client | server
	Verbose bool   `json:"verbose"` // proxy only
	Log     string `json:"log"`     // "" (stderr only) | file | statedir (client: -log-to-state-dir -log name)
}

var (
	binDir   string
	buildErr error
	once     sync.Once
)

func build() (string, error) {
	once.Do(func() {
		dir, err := os.MkdirTemp(os.Getenv("VERIF_OUT"), "c07bin")
		if err != nil {
			buildErr = err
			return
		}
		gobin := os.Getenv("VERIF_GO")
		if gobin == "" {
			gobin = "go"
		}
		repo := os.Getenv("VERIF_REPO")
		if repo == "" {
			repo = "/repo"
		}
		var wg sync.WaitGroup
		var mu sync.Mutex
		for _, b := range []string{"proxy", "client", "server"} {
			wg.Add(1)
			go func(b string) {
				defer wg.Done()
				cmd := exec.Command(gobin, "build", "-ldflags=-checklinkname=0", "-o", filepath.Join(dir, b), "./"+b)
				cmd.Dir = repo
				cmd.Env = append(os.Environ(), "GOFLAGS=-mod=mod", "GOPROXY=off", "GOSUMDB=off", "GOTOOLCHAIN=local")
				if out, err := cmd.CombinedOutput(); err != nil {
					mu.Lock()
					buildErr = fmt.Errorf("building %s: %v\n%s", b, err, out)
					mu.Unlock()
				}
			}(b)
		}
		wg.Wait()
		binDir = dir
	})
	return binDir, buildErr
}

func closedPort() int {
	l, _ := net.Listen("tcp", "127.0.0.1:0")
	p := l.Addr().(*net.TCPAddr).Port
	l.Close()
	return p
}

func isAddrChar(b byte) bool {
	return b >= '0' && b <= '9' || b >= 'a' && b <= 'f' || b >= 'A' && b <= 'F' || b == ':' || b == '.' || b == '[' || b == ']' || b == '%'
}

func addrToken(tok string) bool {
	tok = strings.Trim(tok, ".")
	if tok == "" {
		return false
	}
	if h, _, err := net.SplitHostPort(tok); err == nil {
		tok = h
	} else if strings.HasPrefix(tok, "[") && strings.HasSuffix(tok, "]") {
		tok = tok[1 : len(tok)-1]
	}
	if i := strings.IndexByte(tok, '%'); i >= 0 {
		tok = tok[:i]
	}
	return net.ParseIP(tok) != nil
}

func survivors(name, text string) (lines, placeholders int, out []string) {
	wordy := func(b byte) bool { return b >= 'g' && b <= 'z' || b >= 'G' && b <= 'Z' || b == '_' }
	for _, line := range strings.Split(text, "\n") {
		if line == "" {
			continue
		}
		lines++
		placeholders += strings.Count(line, "[scrubbed]")
		for i := 0; i < len(line); {
			if !isAddrChar(line[i]) {
				i++
				continue
			}
			j := i
			for j < len(line) && isAddrChar(line[j]) {
				j++
			}
			// "...: " - a colon followed by whitespace (or the line end) closes an address, as in
			// "dial tcp 127.0.0.1:9: connect: connection refused" (the scrubber's own right delimiter class)
			if j-i > 1 && line[j-1] == ':' && (j == len(line) || line[j] == ' ' || line[j] == '\t') {
				j--
			}
			glued := i > 0 && wordy(line[i-1]) || j < len(line) && wordy(line[j])
			if !glued && addrToken(line[i:j]) {
				l := line
				if len(l) > 240 {
					l = l[:240] + "..."
				}
				out = append(out, fmt.Sprintf("%s: address %q in line %q", name, line[i:j], l))
			}
			i = j
		}
	}
	return
}

func runBin(_ *testing.T, c binCase) error {
	dir, err := build()
	if err != nil {
		return fmt.Errorf("harness: %v", err)
	}
	work, err := os.MkdirTemp(os.Getenv("VERIF_OUT"), "c07run")
	if err != nil {
		return fmt.Errorf("harness: %v", err)
	}
	defer os.RemoveAll(work)
	logFile := filepath.Join(work, "the.log")
	dead := fmt.Sprintf("127.0.0.1:%d", closedPort())
	var cmd *exec.Cmd
	var after func()
	switch c.Binary {
	case "proxy":
		args := []string{"-broker", "http://" + dead + "/", "-stun", "stun:" + dead, "-relay", "ws://" + dead + "/", "-keep-local-addresses", "-allow-non-tls-relay", "-allowed-relay-hostname-pattern", "$"}
		if c.Verbose {
			args = append(args, "-verbose")
		}
		if c.Log == "file" {
			args = append(args, "-log", logFile)
		}
		cmd = exec.Command(filepath.Join(dir, "proxy"), args...)
	case "client":
		args := []string{"-url", "http://" + dead + "/", "-ice", "stun:" + dead, "-keep-local-addresses"}
		switch c.Log {
		case "file":
			args = append(args, "-log", logFile)
		case "statedir":
			args = append(args, "-log-to-state-dir", "-log", "the.log")
		}
		cmd = exec.Command(filepath.Join(dir, "client"), args...)
		cmd.Env = append(os.Environ(), "TOR_PT_MANAGED_TRANSPORT_VER=1", "TOR_PT_CLIENT_TRANSPORTS=snowflake", "TOR_PT_STATE_LOCATION="+work)
	case "server":
		args := []string{"-disable-tls"}
		if c.Log == "file" {
			args = append(args, "-log", logFile)
		}
		cmd = exec.Command(filepath.Join(dir, "server"), args...)
		cmd.Env = append(os.Environ(), "TOR_PT_MANAGED_TRANSPORT_VER=1", "TOR_PT_SERVER_TRANSPORTS=snowflake", "TOR_PT_STATE_LOCATION="+work,
			"TOR_PT_SERVER_BINDADDR=snowflake-"+fmt.Sprintf("127.0.0.1:%d", closedPort()), "TOR_PT_ORPORT="+dead)
	default:
		return fmt.Errorf("harness: unknown binary %q", c.Binary)
	}
	stderrFile, _ := os.Create(filepath.Join(work, "stderr.txt"))
	cmd.Stderr = stderrFile
	stdout, _ := cmd.StdoutPipe()
	stdin, _ := cmd.StdinPipe()
	defer stdin.Close()
	if err := cmd.Start(); err != nil {
		return fmt.Errorf("harness: %v", err)
	}
	defer func() {
		cmd.Process.Signal(syscall.SIGTERM)
		done := make(chan struct{})
		go func() { cmd.Wait(); close(done) }()
		select {
		case <-done:
		case <-time.After(5 * time.Second):
			cmd.Process.Kill()
			<-done
		}
	}()
	ptOut := make(chan string, 64)
	go func() {
		buf := make([]byte, 4096)
		var acc string
		for {
			n, err := stdout.Read(buf)
			acc += string(buf[:n])
			for {
				i := strings.IndexByte(acc, '\n')
				if i < 0 {
					break
				}
				select {
				case ptOut <- acc[:i]:
				default:
				}
				acc = acc[i+1:]
			}
			if err != nil {
				close(ptOut)
				return
			}
		}
	}()
	_ = after
	if c.Binary == "client" {
		// make it attempt a rendezvous (which fails against the dead broker and is logged): open a SOCKS connection
		socks := ""
		deadline := time.After(10 * time.Second)
	wait:
		for {
			select {
			case l, ok := <-ptOut:
				if !ok {
					break wait
				}
				if strings.HasPrefix(l, "CMETHOD snowflake socks5 ") {
					socks = strings.TrimPrefix(l, "CMETHOD snowflake socks5 ")
				}
				if l == "CMETHODS DONE" {
					break wait
				}
			case <-deadline:
				break wait
			}
		}
		if socks != "" {
			if sc, err := net.DialTimeout("tcp", socks, 3*time.Second); err == nil {
				sc.Write([]byte{5, 1, 0})
				io.ReadFull(sc, make([]byte, 2))
				sc.Write([]byte{5, 1, 0, 1, 192, 0, 2, 99, 0, 80})
				defer sc.Close()
			}
		}
	}
	if c.Binary == "server" {
		// a request from a "proxy" with a client_ip makes the server log about the connection
		deadline := time.After(10 * time.Second)
		addr := ""
	waitS:
		for {
			select {
			case l, ok := <-ptOut:
				if !ok {
					break waitS
				}
				if strings.HasPrefix(l, "SMETHOD snowflake ") {
					addr = strings.Fields(strings.TrimPrefix(l, "SMETHOD snowflake "))[0]
				}
				if l == "SMETHODS DONE" {
					break waitS
				}
			case <-deadline:
				break waitS
			}
		}
		if addr != "" {
			if sc, err := net.DialTimeout("tcp", addr, 3*time.Second); err == nil {
				fmt.Fprintf(sc, "GET /?client_ip=203.0.113.77 HTTP/1.1\r\nHost: %s\r\n\r\n", addr)
				sc.SetReadDeadline(time.Now().Add(time.Second))
				io.ReadAll(sc)
				sc.Close()
			}
		}
	}
	// let it log until a line that carries (or carried) an address shows up: the proxy needs its NAT
	// probe to give up first (about 10 s against a dead STUN server)
	var texts map[string]string
	deadline := time.Now().Add(20 * time.Second)
	for {
		time.Sleep(500 * time.Millisecond)
		texts = map[string]string{}
		if b, err := os.ReadFile(filepath.Join(work, "stderr.txt")); err == nil {
			texts["stderr"] = string(b)
		}
		if b, err := os.ReadFile(logFile); err == nil {
			texts["log file"] = string(b)
		}
		seen := false
		for name, text := range texts {
			if _, ph, surv := survivors(name, text); ph > 0 || len(surv) > 0 {
				seen = true
			}
		}
		if seen || time.Now().After(deadline) {
			time.Sleep(500 * time.Millisecond)
			break
		}
	}
	// (re-read after the grace period)
	if b, err := os.ReadFile(filepath.Join(work, "stderr.txt")); err == nil {
		texts["stderr"] = string(b)
	}
	if b, err := os.ReadFile(logFile); err == nil {
		texts["log file"] = string(b)
	}
	totalLines, totalPH := 0, 0
	for name, text := range texts {
		lines, ph, surv := survivors(name, text)
		totalLines += lines
		totalPH += ph
		if len(surv) > 0 {
			return fmt.Errorf("%s binary (verbose=%v, log=%q): %d address(es) reached its %s; first: %s", c.Binary, c.Verbose, c.Log, len(surv), name, surv[0])
		}
	}
	uBin.Add("log lines scanned", int64(totalLines))
	uBin.Add("placeholders seen", int64(totalPH))
	if totalPH > 0 {
		uBin.Add("runs in which the binary logged a scrubbed address", 1)
	}
	return nil
}

var uBin = vstat.New("C07", "c07_binaries")

func init() { vstat.Register(uBin, runBin) }

// The configuration space is small: it is enumerated completely (spread over the shards), with
// rounds of repetition in the thorough tier (what a binary logs in 2.5 s varies a little).
func TestVerifC07Binaries(t *testing.T) {
	defer uBin.Flush()
	var all []binCase
	for _, v := range []bool{false, true} {
		for _, l := range []string{"", "file"} {
			all = append(all, binCase{Binary: "proxy", Verbose: v, Log: l})
		}
	}
	for _, l := range []string{"", "file", "statedir"} {
		all = append(all, binCase{Binary: "client", Log: l})
	}
	for _, l := range []string{"", "file"} {
		all = append(all, binCase{Binary: "server", Log: l})
	}
	rounds := vstat.Pick(1, 4)
	for r := 0; r < rounds; r++ {
		for i, c := range all {
			if i%vstat.Shards() != vstat.Shard()%vstat.Shards() {
				continue
			}
			vstat.Run(uBin, t, t, c, c.Log != "" || c.Verbose, []string{fmt.Sprintf("%s verbose=%v log=%s", c.Binary, c.Verbose, c.Log)}, runBin)
		}
	}
}

func TestVerifReplay(t *testing.T) { vstat.RunReplays(t) }
