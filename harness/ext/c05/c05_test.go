// C05 Server binds packets to sessions by ClientID; sessions never mix.
// C18 (c) the accepted connection's remote address is the sanitised client_ip of one
// of that session's own carriers.
package c05

import (
	"fmt"
	"net"
	"net/netip"
	"strings"
	"sync"
	"testing"
	"time"

	"pgregory.net/rapid"
	"verif.local/vstat"
	"verif.local/vstat/gen"
	"verifext/rig"
)

type multiCase struct {
	Sessions []rig.Session `json:"sessions"`
	Decoys   []string      `json:"decoys,omitempty"`
}

const stallBudget = 40 * time.Second

// sanitise is the reference reading of the statement: a bare, specified IP literal
// rendered with a stub port, else empty.
func sanitise(ip string, absent bool) string {
	if absent {
		return ""
	}
	a, err := netip.ParseAddr(ip)
	if err != nil || a.Zone() != "" || a.IsUnspecified() {
		return ""
	}
	if net.ParseIP(ip) == nil {
		return ""
	}
	if a.Is4In6() && a.Unmap().IsUnspecified() {
		return ""
	}
	return net.JoinHostPort(net.ParseIP(ip).String(), "1")
}

func runMulti(_ *testing.T, c multiCase) error {
	r, err := rig.Get()
	if err != nil {
		return fmt.Errorf("harness: %v", err)
	}
	unknownBefore := r.Unknown
	results := make([]*rig.Result, len(c.Sessions))
	var wg sync.WaitGroup
	for i := range c.Sessions {
		wg.Add(1)
		go func(i int) {
			defer wg.Done()
			results[i] = r.Run(&c.Sessions[i], stallBudget)
		}(i)
	}
	decoyErr := make([]error, len(c.Decoys))
	for i, d := range c.Decoys {
		wg.Add(1)
		go func(i int, d string) {
			defer wg.Done()
			closed, err := r.Decoy(d, 15*time.Second)
			if err != nil {
				return // environment hiccup while dialling
			}
			if !closed {
				decoyErr[i] = fmt.Errorf("decoy carrier %q was not closed by the server within 15 s", d)
			}
		}(i, d)
	}
	wg.Wait()
	for _, e := range decoyErr {
		if e != nil {
			return e
		}
	}
	for i, res := range results {
		s := &c.Sessions[i]
		if res.Err != "" {
			return fmt.Errorf("session %d: %s", i, res.Err)
		}
		if res.Stalled {
			// stall rule: re-run this session alone with a doubled budget
			s2 := *s
			s2.Label ^= 0x2000000000000000
			res2 := r.Run(&s2, 2*stallBudget)
			if res2.Err != "" {
				return fmt.Errorf("session %d: %s", i, res2.Err)
			}
			if res2.Stalled {
				return fmt.Errorf("session %d stalled although its last carrier is healthy: upstream %d/%d downstream %d/%d after %d carriers", i, res2.UpGot, s.UpSize, res2.DownGot, s.DownSize, res2.Carriers)
			}
			uMulti.Add("label:stall-then-ok", 1)
			continue
		}
		if !res.UpDone || !res.DownDone {
			return fmt.Errorf("session %d incomplete: upstream %d/%d downstream %d/%d", i, res.UpGot, s.UpSize, res.DownGot, s.DownSize)
		}
		if res.Accepted != 1 {
			return fmt.Errorf("session %d (%d carriers) surfaced as %d accepted connections, expected exactly one", i, res.Carriers, res.Accepted)
		}
		// attribution: the remote address is the sanitised client_ip of one of this session's carriers
		if len(res.Remote) != 1 {
			return fmt.Errorf("session %d: %d remote addresses recorded", i, len(res.Remote))
		}
		own := map[string]bool{}
		used := res.Carriers
		for k := 0; k < used; k++ {
			cr := s.Carriers[len(s.Carriers)-1]
			if k < len(s.Carriers)-1 {
				cr = s.Carriers[k]
			}
			own[sanitise(cr.ClientIP, cr.NoClientIP)] = true
		}
		if !own[res.Remote[0]] {
			var o []string
			for k := range own {
				o = append(o, fmt.Sprintf("%q", k))
			}
			return fmt.Errorf("session %d: accepted connection reports remote address %q; the sanitised client_ip values of its own carriers are %s", i, res.Remote[0], strings.Join(o, ","))
		}
		if s.LateStream && res.LateOpened {
			// a second stream of the same session is a second accepted connection of the session: its
			// address is the one the session was established with, whatever its later carriers said
			if len(res.LateRemote) == 0 {
				return fmt.Errorf("session %d: a second stream opened on the established session did not surface as an accepted connection within the budget", i)
			}
			if res.LateRemote[0] != res.Remote[0] {
				return fmt.Errorf("session %d: the connection accepted for a later stream of the same session reports remote address %q, the session was established with %q (its carriers' client_ip values in order: %s)", i, res.LateRemote[0], res.Remote[0], carrierIPs(s, used))
			}
		}
		if used == 1 || res.Carriers > 0 && firstOnly(s, res) {
			first := s.Carriers[0]
			if len(s.Carriers) == 1 {
				first = s.Carriers[0]
			}
			if want := sanitise(first.ClientIP, first.NoClientIP); used == 1 && res.Remote[0] != want {
				return fmt.Errorf("session %d used a single carrier with client_ip %q: remote address %q, expected %q", i, first.ClientIP, res.Remote[0], want)
			}
		}
	}
	if r.Unknown != unknownBefore {
		return fmt.Errorf("%d connection(s) were accepted that belong to no session (decoy carriers must not produce a connection)", r.Unknown-unknownBefore)
	}
	return nil
}

func firstOnly(s *rig.Session, res *rig.Result) bool { return res.Carriers == 1 }

var uMulti = vstat.New("C05", "c05_sessions")

func init() { vstat.Register(uMulti, runMulti) }

var labelCounter uint64

var ipPool = []string{"198.51.100.1", "203.0.113.77", "2001:db8::1", "::ffff:192.0.2.9", "10.0.0.1", "0.0.0.0", "::", "", "garbage", "1.2.3.4:80", "[2001:db8::2]", "fe80::1%eth0", " 1.2.3.4", "01.2.3.4", "::ffff:0.0.0.0", "255.255.255.255"}

func genIP(t *rapid.T) (string, bool) {
	switch rapid.IntRange(0, 6).Draw(t, "ipclass") {
	case 0:
		return "", true
	case 1:
		return gen.IPv4(t), false
	case 2:
		return gen.IPv6(t), false
	case 3:
		return gen.Address(t).Text, false
	default:
		return rapid.SampledFrom(ipPool).Draw(t, "ip"), false
	}
}

func TestVerifC05Sessions(t *testing.T) {
	defer uMulti.Flush()
	start := time.Now()
	rapid.Check(t, func(rt *rapid.T) {
		if time.Since(start) > time.Duration(vstat.Pick(75, 900))*time.Second {
			return // time budget of this real-time unit used up: the remaining iterations are empty (not counted as cases)
		}
		var c multiCase
		n := rapid.IntRange(1, vstat.Pick(5, 8)).Draw(rt, "nsessions")
		churn := 0
		for i := 0; i < n; i++ {
			labelCounter++
			label := vstat.Seed()<<32 ^ 0x0500000000000000 ^ labelCounter<<8 ^ uint64(i)
			s := rig.GenSession(rt, label, 4)
			bulk := s.DownSize >= 3<<20 && len(s.Carriers) == 2 && s.Carriers[1].DialDelayMs >= 1500 // the "gap under load" family keeps its size
			if s.UpSize > 300000 {
				s.UpSize = 300000
			}
			if s.DownSize > 300000 && !bulk {
				s.DownSize = 300000
			}
			s.StartDelayMs = rapid.SampledFrom([]int{0, 0, 5, 50, 300}).Draw(rt, "start")
			for k := range s.Carriers {
				s.Carriers[k].ClientIP, s.Carriers[k].NoClientIP = genIP(rt)
			}
			if len(s.Carriers) > 1 {
				churn++
			}
			c.Sessions = append(c.Sessions, s)
		}
		nd := rapid.IntRange(0, 3).Draw(rt, "ndecoys")
		for i := 0; i < nd; i++ {
			c.Decoys = append(c.Decoys, rapid.SampledFrom([]string{"no-token", "wrong-token", "short-token", "truncated-clientid", "token-id-garbage", "token-id-only"}).Draw(rt, "decoy"))
		}
		labels := []string{fmt.Sprintf("sessions=%d", n)}
		if nd > 0 {
			labels = append(labels, "decoys")
		}
		uMulti.Journal(c)
		vstat.Run(uMulti, t, rt, c, n >= 2 && churn >= 1, labels, runMulti)
	})
	uMulti.JournalDone()
}

func TestVerifReplay(t *testing.T) { vstat.RunReplays(t) }

func carrierIPs(s *rig.Session, used int) string {
	var o []string
	for k := 0; k < used; k++ {
		cr := s.Carriers[len(s.Carriers)-1]
		if k < len(s.Carriers)-1 {
			cr = s.Carriers[k]
		}
		if cr.NoClientIP {
			o = append(o, "<absent>")
		} else {
			o = append(o, fmt.Sprintf("%q", cr.ClientIP))
		}
	}
	return strings.Join(o, " ")
}

// C18 (c): the same rig, focused on attribution: small payloads, many address forms.
var uAttr = vstat.New("C18", "c18_attribution")

func init() { vstat.Register(uAttr, runMulti) }

func TestVerifC18Attribution(t *testing.T) {
	defer uAttr.Flush()
	start := time.Now()
	rapid.Check(t, func(rt *rapid.T) {
		if time.Since(start) > time.Duration(vstat.Pick(60, 600))*time.Second {
			return // time budget of this real-time unit used up: the remaining iterations are empty (not counted as cases)
		}
		var c multiCase
		n := rapid.IntRange(2, 6).Draw(rt, "nsessions")
		distinct := map[string]bool{}
		late := 0
		for i := 0; i < n; i++ {
			labelCounter++
			label := vstat.Seed()<<32 ^ 0x1800000000000000 ^ labelCounter<<8 ^ uint64(i)
			s := rig.Session{Label: label, UpSize: int64(rapid.IntRange(0, 3000).Draw(rt, "up")), DownSize: int64(rapid.IntRange(0, 3000).Draw(rt, "down"))}
			nc := rapid.IntRange(1, 3).Draw(rt, "ncarriers")
			for k := 0; k < nc; k++ {
				cr := rig.Carrier{}
				if k < nc-1 {
					cr = rig.Carrier{Mode: rapid.SampledFrom([]string{"close", "reset", "freeze"}).Draw(rt, "mode"), FreezeMs: 100, CutUpAfter: int64(rapid.IntRange(1, 600).Draw(rt, "cut"))}
				}
				cr.ClientIP, cr.NoClientIP = genIP(rt)
				cr.Preamble = rig.GenPreamble(rt)
				distinct[cr.ClientIP] = true
				s.Carriers = append(s.Carriers, cr)
			}
			s.StartDelayMs = rapid.SampledFrom([]int{0, 0, 10}).Draw(rt, "start")
			s.LateStream = rapid.Bool().Draw(rt, "latestream")
			if s.LateStream && nc > 1 {
				late++
			}
			c.Sessions = append(c.Sessions, s)
		}
		uAttr.Journal(c)
		uAttr.Case(c, len(distinct) >= 2, fmt.Sprintf("sessions=%d", n), fmt.Sprintf("late streams after a carrier switch=%d", min(late, 2)))
		if err := vstat.Safely(func() error { return runMulti(t, c) }); err != nil {
			if vstat.Inconclusive(err) {
				uAttr.Add("inconclusive", 1)
				return
			}
			rt.Fatalf("%s", uAttr.Fail(c, "%v", err))
		}
	})
	uAttr.JournalDone()
}
