// C13 Untrusted session descriptions cannot crash client or proxy (exported part:
// util.Serialize/DeserializeSessionDescription; remoteIPFromSDP is in-package).
package c13

import (
	"encoding/json"
	"fmt"
	"strings"
	"testing"

	"git.torproject.org/pluggable-transports/snowflake.git/v2/common/util"
	"github.com/pion/webrtc/v3"
	"pgregory.net/rapid"
	"verif.local/vstat"
)

type dcase struct {
	Mode string `json:"mode"` // roundtrip | json | text
	Type string `json:"type,omitempty"`
	SDP  string `json:"sdp,omitempty"`
	Msg  string `json:"msg,omitempty"`
}

var types = map[string]webrtc.SDPType{"offer": webrtc.SDPTypeOffer, "pranswer": webrtc.SDPTypePranswer, "answer": webrtc.SDPTypeAnswer, "rollback": webrtc.SDPTypeRollback}

func runDesc(_ *testing.T, c dcase) error {
	if c.Mode == "roundtrip" {
		d := &webrtc.SessionDescription{Type: types[c.Type], SDP: c.SDP}
		s, err := util.SerializeSessionDescription(d)
		if err != nil {
			return fmt.Errorf("serialize: %v", err)
		}
		got, err := util.DeserializeSessionDescription(s)
		if err != nil {
			return fmt.Errorf("deserialize(serialize(d)) failed: %v (%s)", err, s)
		}
		if got.Type != d.Type || got.SDP != d.SDP {
			return fmt.Errorf("round trip changed the description: got (%v,%q) want (%v,%q)", got.Type, got.SDP, d.Type, d.SDP)
		}
		return nil
	}
	got, err := util.DeserializeSessionDescription(c.Msg)
	if err == nil {
		if got == nil {
			return fmt.Errorf("nil description and nil error for %q", c.Msg)
		}
		ok := false
		for _, t := range types {
			if got.Type == t {
				ok = true
			}
		}
		if !ok {
			return fmt.Errorf("deserialised description has type %v from %q", got.Type, c.Msg)
		}
		// what was returned must be what the message says
		var m map[string]any
		if json.Unmarshal([]byte(c.Msg), &m) == nil {
			if s, isStr := m["sdp"].(string); !isStr || s != got.SDP {
				return fmt.Errorf("deserialised sdp %q does not equal the message's sdp member (%v)", got.SDP, m["sdp"])
			}
			if s, isStr := m["type"].(string); !isStr || types[s] != got.Type {
				return fmt.Errorf("deserialised type %v does not equal the message's type member (%v)", got.Type, m["type"])
			}
		}
	}
	return nil
}

func genJSONValue(t *rapid.T, label string, depth int) string {
	switch rapid.IntRange(0, 9).Draw(t, label+"_k") {
	case 0:
		return "null"
	case 1:
		return rapid.SampledFrom([]string{"0", "1", "-1", "1.5", "1e99", "true", "false"}).Draw(t, label+"_n")
	case 2:
		if depth > 1 {
			return "[]"
		}
		return "[" + genJSONValue(t, label+"a", depth+1) + "]"
	case 3:
		if depth > 1 {
			return "{}"
		}
		return "{\"type\":" + genJSONValue(t, label+"o", depth+1) + "}"
	case 4:
		b, _ := json.Marshal(rapid.SampledFrom([]string{"offer", "answer", "pranswer", "rollback", "Offer", "", "unknown"}).Draw(t, label+"_ty"))
		return string(b)
	default:
		b, _ := json.Marshal(rapid.OneOf(rapid.String(), rapid.SampledFrom([]string{"v=0\r\n", "", "x"})).Draw(t, label+"_s"))
		return string(b)
	}
}

func genCase(t *rapid.T) dcase {
	switch rapid.IntRange(0, 9).Draw(t, "mode") {
	case 0, 1, 2:
		sdp := rapid.OneOf(rapid.String(), rapid.SampledFrom([]string{"", "v=0\r\no=- 1 1 IN IP4 0.0.0.0\r\n", "\"}{", " <>&"})).Draw(t, "sdp")
		return dcase{Mode: "roundtrip", Type: rapid.SampledFrom([]string{"offer", "pranswer", "answer", "rollback"}).Draw(t, "type"), SDP: strings.ToValidUTF8(sdp, "?")}
	case 3:
		return dcase{Mode: "text", Msg: rapid.OneOf(rapid.String(), rapid.SampledFrom([]string{"", "null", "[]", "0", "\"x\"", "{", "{}", "[{}]", "{\"type\":\"offer\"}", "{\"sdp\":\"x\"}", "v=0\r\n"})).Draw(t, "msg")}
	default:
		// object with generated members in generated order, possibly duplicated / missing / wrong case
		var members []string
		n := rapid.IntRange(0, 4).Draw(t, "nmembers")
		for i := 0; i < n; i++ {
			key := rapid.SampledFrom([]string{"type", "sdp", "type", "sdp", "Type", "SDP", "x"}).Draw(t, "key")
			members = append(members, fmt.Sprintf("%q:%s", key, genJSONValue(t, "v", 0)))
		}
		return dcase{Mode: "json", Msg: "{" + strings.Join(members, ",") + "}"}
	}
}

var uDesc = vstat.New("C13", "c13_sessdesc")

func init() { vstat.Register(uDesc, runDesc) }

func TestVerifC13SessDesc(t *testing.T) {
	defer uDesc.Flush()
	rapid.Check(t, func(rt *rapid.T) {
		c := genCase(rt)
		nt := c.Mode == "json" && strings.Contains(c.Msg, "\"type\"") && strings.Contains(c.Msg, "\"sdp\"")
		if c.Mode == "roundtrip" {
			b, _ := json.Marshal(c.SDP)
			nt = len(b) != len(c.SDP)+2
		}
		vstat.Run(uDesc, t, rt, c, nt, []string{"mode=" + c.Mode}, runDesc)
	})
}

func TestVerifReplay(t *testing.T) { vstat.RunReplays(t) }

func FuzzC13Deserialize(f *testing.F) {
	f.Add(`{"type":"offer","sdp":"v=0\r\n"}`)
	f.Add(`{"type":1,"sdp":null}`)
	f.Add(`[]`)
	f.Fuzz(func(t *testing.T, msg string) {
		c := dcase{Mode: "text", Msg: msg}
		if err := vstat.Safely(func() error { return runDesc(t, c) }); err != nil {
			t.Fatalf("%s", uDesc.Fail(c, "%v", err))
		}
	})
}
