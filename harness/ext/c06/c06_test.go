// C06 (a) superset law of the relay-name matcher.
package c06

import (
	"fmt"
	"strings"
	"testing"

	"git.torproject.org/pluggable-transports/snowflake.git/v2/common/namematcher"
	"pgregory.net/rapid"
	"verif.local/vstat"
)

type pcase struct {
	P string `json:"p"`
	Q string `json:"q"`
	H string `json:"h"`
}

// reference semantics of one pattern, from the package's documented behaviour:
// optional leading ^ (exact), optional trailing $, otherwise suffix match.
func refMember(rule, h string) bool {
	rule = strings.TrimSuffix(rule, "$")
	if strings.HasPrefix(rule, "^") {
		return h == rule[1:]
	}
	return strings.HasSuffix(h, rule)
}

func runSuperset(_ *testing.T, c pcase) error {
	p := namematcher.NewNameMatcher(c.P)
	q := namematcher.NewNameMatcher(c.Q)
	sup := p.IsSupersetOf(q)
	mp, mq := p.IsMember(c.H), q.IsMember(c.H)
	if mp != refMember(c.P, c.H) {
		return fmt.Errorf("pattern %q, hostname %q: IsMember=%v, reference says %v", c.P, c.H, mp, !mp)
	}
	if sup && mq && !mp {
		return fmt.Errorf("pattern %q is judged a superset of %q, yet hostname %q is accepted by the latter and rejected by the former", c.P, c.Q, c.H)
	}
	return nil
}

var alpha = []string{"a", "b", ".", "-", "^", "$"}

func genPattern(t *rapid.T, label string) string {
	if rapid.IntRange(0, 3).Draw(t, label+"_real") == 0 {
		return rapid.SampledFrom([]string{"snowflake.torproject.net$", "^snowflake.torproject.net$", "torproject.net$", ".torproject.net$", "net$", "$", "^$", "", "^", "^snowflake.torproject.net", "snowflake.torproject.net", "^01.snowflake.torproject.net$", "flake.torproject.net$"}).Draw(t, label)
	}
	body := strings.Join(rapid.SliceOfN(rapid.SampledFrom(alpha[:4]), 0, 5).Draw(t, label+"_body"), "")
	if rapid.Bool().Draw(t, label+"_caret") {
		body = "^" + body
	}
	if rapid.IntRange(0, 3).Draw(t, label+"_dollar") != 0 {
		body += "$"
	}
	if rapid.IntRange(0, 9).Draw(t, label+"_odd") == 0 {
		body = strings.Join(rapid.SliceOfN(rapid.SampledFrom(alpha), 0, 5).Draw(t, label+"_any"), "")
	}
	return body
}

// construct members of q rather than filtering for them
func genHost(t *rapid.T, p, q string) string {
	base := strings.TrimPrefix(strings.TrimSuffix(q, "$"), "^")
	switch rapid.IntRange(0, 4).Draw(t, "hostkind") {
	case 0:
		return base
	case 1, 2:
		return strings.Join(rapid.SliceOfN(rapid.SampledFrom(alpha[:4]), 0, 4).Draw(t, "hostprefix"), "") + base
	case 3:
		pb := strings.TrimPrefix(strings.TrimSuffix(p, "$"), "^")
		return strings.Join(rapid.SliceOfN(rapid.SampledFrom(alpha[:4]), 0, 3).Draw(t, "hostprefix2"), "") + pb
	default:
		return strings.Join(rapid.SliceOfN(rapid.SampledFrom(alpha), 0, 6).Draw(t, "hostany"), "")
	}
}

var uSup = vstat.New("C06", "c06_superset")

func init() { vstat.Register(uSup, runSuperset) }

func nontrivial(c pcase) bool {
	pb := strings.TrimPrefix(strings.TrimSuffix(c.P, "$"), "^")
	qb := strings.TrimPrefix(strings.TrimSuffix(c.Q, "$"), "^")
	return c.P != c.Q && pb != "" && qb != "" && (strings.HasSuffix(pb, qb) || strings.HasSuffix(qb, pb))
}

func TestVerifC06Superset(t *testing.T) {
	defer uSup.Flush()
	rapid.Check(t, func(rt *rapid.T) {
		c := pcase{P: genPattern(rt, "p"), Q: genPattern(rt, "q")}
		c.H = genHost(rt, c.P, c.Q)
		vstat.Run(uSup, t, rt, c, nontrivial(c), nil, runSuperset)
	})
}

// exhaustive over a 4-letter alphabet: |p|,|q| <= 4, |h| <= 5
func TestVerifC06SupersetExhaustive(t *testing.T) {
	u := vstat.New("C06", "c06_superset_exh")
	defer u.Flush()
	ab := []string{"a", ".", "^", "$"}
	var words func(n int) []string
	words = func(n int) []string {
		if n == 0 {
			return []string{""}
		}
		var r []string
		for _, w := range words(n - 1) {
			r = append(r, w)
		}
		prev := words(n - 1)
		for _, w := range prev {
			if len(w) == n-1 {
				for _, a := range ab {
					r = append(r, w+a)
				}
			}
		}
		return r
	}
	pats := words(4)
	hosts := words(vstat.Pick(4, 5))
	n := 0
	shards, me := vstat.Shards(), vstat.Shard()
	for i, p := range pats {
		if i%shards != me {
			continue
		}
		for _, q := range pats {
			pm, qm := namematcher.NewNameMatcher(p), namematcher.NewNameMatcher(q)
			if !pm.IsSupersetOf(qm) {
				n += len(hosts)
				continue
			}
			for _, h := range hosts {
				n++
				if qm.IsMember(h) && !pm.IsMember(h) {
					c := pcase{P: p, Q: q, H: h}
					t.Fatalf("%s", uSup.Fail(c, "pattern %q is judged a superset of %q, yet hostname %q is accepted by the latter and rejected by the former", p, q, h))
				}
			}
			c := pcase{P: p, Q: q}
			u.Case(c, nontrivial(c))
		}
	}
	u.Add("exhaustive_triples", int64(n))
	u.Add("patterns", int64(len(pats)))
	u.Add("hosts", int64(len(hosts)))
}

func TestVerifReplay(t *testing.T) { vstat.RunReplays(t) }
