// C10 AMP armor round-trips and survives cache-style rewriting.
package c10

import (
	"bytes"
	"encoding/base64"
	"errors"
	"fmt"
	"io"
	"runtime"
	"strings"
	"testing"
	"time"

	"git.torproject.org/pluggable-transports/snowflake.git/v2/common/amp"
	"pgregory.net/rapid"
	"verif.local/vstat"
)

// The fixed AMP boilerplate (https://amp.dev/boilerplate/): copied here so that the
// structure check does not depend on the constants of the package under test.
const boilerStart = "<!doctype html>\n<html amp>\n<head>\n<meta charset=\"utf-8\">\n<script async src=\"https://cdn.ampproject.org/v0.js\"></script>\n<link rel=\"canonical\" href=\"#\">\n<meta name=\"viewport\" content=\"width=device-width\">\n" +
	"<style amp-boilerplate>body{-webkit-animation:-amp-start 8s steps(1,end) 0s 1 normal both;-moz-animation:-amp-start 8s steps(1,end) 0s 1 normal both;-ms-animation:-amp-start 8s steps(1,end) 0s 1 normal both;animation:-amp-start 8s steps(1,end) 0s 1 normal both}@-webkit-keyframes -amp-start{from{visibility:hidden}to{visibility:visible}}@-moz-keyframes -amp-start{from{visibility:hidden}to{visibility:visible}}@-ms-keyframes -amp-start{from{visibility:hidden}to{visibility:visible}}@-o-keyframes -amp-start{from{visibility:hidden}to{visibility:visible}}@keyframes -amp-start{from{visibility:hidden}to{visibility:visible}}</style><noscript><style amp-boilerplate>body{-webkit-animation:none;-moz-animation:none;-ms-animation:none;animation:none}</style></noscript>\n</head>\n<body>\n"
const boilerEnd = "</body>\n</html>"

type insert struct {
	At   int    `json:"at"` // index among the insertion points outside pre elements
	Text string `json:"text"`
}

type acase struct {
	Size     int      `json:"size"`
	Seed     uint64   `json:"seed"`
	Writes   []int    `json:"writes,omitempty"`   // cyclic encoder Write sizes (empty = one write)
	Reads    []int    `json:"reads,omitempty"`    // cyclic decoder Read buffer sizes (empty = ReadAll)
	SrcReads []int    `json:"srcreads,omitempty"` // cyclic fragmentation of the document fed to the decoder
	WS       []string `json:"ws,omitempty"`       // cyclic replacements for whitespace runs inside pre
	Inserts  []insert `json:"inserts,omitempty"`
	Wrap     bool     `json:"wrap,omitempty"` // wrap the body content in a div
	Mut      string   `json:"mut,omitempty"`  // "", version, stray, nested, unterminated, oversize, badb64
}

func payload(n int, seed uint64) []byte {
	p := make([]byte, n)
	x := seed*0x9E3779B97F4A7C15 + 77
	for i := range p {
		x ^= x << 13
		x ^= x >> 7
		x ^= x << 17
		p[i] = byte(x >> 24)
	}
	return p
}

func encode(c acase, data []byte) (string, error) {
	var b bytes.Buffer
	enc, err := amp.NewArmorEncoder(&b)
	if err != nil {
		return "", err
	}
	rest := data
	for k := 0; len(rest) > 0; k++ {
		n := len(rest)
		if len(c.Writes) > 0 {
			if m := c.Writes[k%len(c.Writes)]; m < n {
				n = m
			}
		}
		if n < 1 {
			n = 1
		}
		w, err := enc.Write(rest[:n])
		if err != nil || w != n {
			return "", fmt.Errorf("encoder Write returned (%d,%v) for %d bytes", w, err, n)
		}
		rest = rest[n:]
	}
	if err := enc.Close(); err != nil {
		return "", err
	}
	return b.String(), nil
}

func isWS(b byte) bool { return b == '\t' || b == '\n' || b == '\f' || b == '\r' || b == ' ' }

// element is the text between <pre> and </pre>.
type element struct{ start, end int } // byte offsets of the text in doc

// scan is the harness' own structure scanner (no HTML tokenizer).
func scan(doc string) (elems []element, err error) {
	if !strings.HasPrefix(doc, boilerStart) {
		return nil, fmt.Errorf("document does not start with the AMP boilerplate")
	}
	if !strings.HasSuffix(doc, boilerEnd) {
		return nil, fmt.Errorf("document does not end with the AMP boilerplate trailer")
	}
	pos := len(boilerStart)
	end := len(doc) - len(boilerEnd)
	for pos < end {
		if !strings.HasPrefix(doc[pos:], "<pre>") {
			return nil, fmt.Errorf("unexpected content between boilerplate and pre elements at offset %d: %q", pos, clip(doc[pos:end]))
		}
		pos += len("<pre>")
		i := strings.Index(doc[pos:end], "</pre>")
		if i < 0 {
			return nil, fmt.Errorf("unterminated pre element")
		}
		if strings.ContainsAny(doc[pos:pos+i], "<>&") {
			return nil, fmt.Errorf("markup inside pre element")
		}
		elems = append(elems, element{pos, pos + i})
		pos += i + len("</pre>")
		if pos < end && doc[pos] == '\n' {
			pos++
		}
	}
	return elems, nil
}

func clip(s string) string {
	if len(s) > 60 {
		return s[:60] + "…"
	}
	return s
}

func checkStructure(doc string, data []byte) error {
	elems, err := scan(doc)
	if err != nil {
		return err
	}
	var joined strings.Builder
	for _, e := range elems {
		text := doc[e.start:e.end]
		if len(text) > 32*1024 {
			return fmt.Errorf("pre element holds %d bytes of text, limit is 32 KiB", len(text))
		}
		for _, w := range strings.FieldsFunc(text, func(r rune) bool { return r < 128 && isWS(byte(r)) }) {
			if len(w) > 32 {
				return fmt.Errorf("word of %d bytes inside pre element: %q", len(w), w)
			}
			joined.WriteString(w)
		}
	}
	want := "0" + base64.StdEncoding.EncodeToString(data)
	if joined.String() != want {
		return fmt.Errorf("words of the pre elements do not spell version byte + base64(payload): got %q want %q", clip(joined.String()), clip(want))
	}
	return nil
}

// rewrite applies cache-style modifications that the statement says are harmless.
func rewrite(c acase, doc string) (string, error) {
	elems, err := scan(doc)
	if err != nil {
		return "", err
	}
	var b strings.Builder
	var points []int // offsets in doc at which text may be inserted (outside pre)
	points = append(points, len(boilerStart))
	for _, e := range elems {
		points = append(points, e.end+len("</pre>"))
	}
	points = append(points, len(doc)) // after </html>
	ins := map[int]string{}
	for _, in := range c.Inserts {
		p := points[in.At%len(points)]
		ins[p] += in.Text
	}
	k := 0
	pos := 0
	emit := func(upto int) {
		for pos < upto {
			if s, ok := ins[pos]; ok {
				b.WriteString(s)
				delete(ins, pos)
			}
			b.WriteByte(doc[pos])
			pos++
		}
	}
	for _, e := range elems {
		emit(e.start)
		text := doc[e.start:e.end]
		room := 32000 - len(text) // keep the element under the documented size
		var eb strings.Builder
		for i := 0; i < len(text); {
			if !isWS(text[i]) {
				eb.WriteByte(text[i])
				i++
				continue
			}
			j := i
			for j < len(text) && isWS(text[j]) {
				j++
			}
			rep := text[i:j]
			if len(c.WS) > 0 {
				cand := c.WS[k%len(c.WS)]
				k++
				if cand != "" && len(cand)-(j-i) <= room {
					room -= len(cand) - (j - i)
					rep = cand
				} else if cand != "" {
					rep = cand[:1]
				}
			}
			eb.WriteString(rep)
			i = j
		}
		b.WriteString(eb.String())
		pos = e.end
	}
	emit(len(doc))
	if s, ok := ins[len(doc)]; ok {
		b.WriteString(s)
	}
	out := b.String()
	if c.Wrap {
		out = strings.Replace(out, "<body>\n", "<body class=\"x\"><div id='w'>\n", 1)
		out = strings.Replace(out, "</body>", "</div><!-- c --></body>", 1)
	}
	return out, nil
}

type fragReader struct {
	s     string
	pos   int
	sizes []int
	k     int
}

func (r *fragReader) Read(p []byte) (int, error) {
	if r.pos == len(r.s) {
		return 0, io.EOF
	}
	max := len(p)
	if len(r.sizes) > 0 {
		if m := r.sizes[r.k%len(r.sizes)]; m < max {
			max = m
		}
		r.k++
	}
	if max < 1 {
		max = 1
	}
	n := copy(p[:max], r.s[r.pos:])
	r.pos += n
	return n, nil
}

// ampWorkers counts goroutines that are inside the decoder's worker function.
func ampWorkers() int {
	buf := make([]byte, 1<<20)
	buf = buf[:runtime.Stack(buf, true)]
	return strings.Count(string(buf), "common/amp.decodeToWriter(")
}

var errWorkerLeft = errors.New("worker left behind")

func decode(c acase, doc string) ([]byte, error) {
	before := ampWorkers()
	dec, err := amp.NewArmorDecoder(&fragReader{s: doc, sizes: c.SrcReads})
	if err != nil {
		// the constructor refused the document (e.g. unknown version): it hands no reader out, so nobody can
		// ever drain or close the decoder - its worker must have been released ("no hang, no unbounded buffering")
		for i := 0; i < 200 && ampWorkers() > before; i++ {
			time.Sleep(5 * time.Millisecond)
		}
		if n := ampWorkers(); n > before {
			return nil, fmt.Errorf("%w: NewArmorDecoder returned %q and left %d worker goroutine(s) blocked inside the decoder", errWorkerLeft, err, n-before)
		}
		return nil, err
	}
	if len(c.Reads) == 0 {
		return io.ReadAll(dec)
	}
	var out []byte
	for k := 0; ; k++ {
		buf := make([]byte, c.Reads[k%len(c.Reads)])
		n, err := dec.Read(buf)
		out = append(out, buf[:n]...)
		if err == io.EOF {
			return out, nil
		}
		if err != nil {
			return out, err
		}
		if len(out) > 4<<20 {
			return out, errors.New("decoder produced more than 4 MiB")
		}
	}
}

func mutate(c acase, doc string) (string, error) {
	elems, err := scan(doc)
	if err != nil || len(elems) == 0 {
		return "", fmt.Errorf("cannot mutate: %v", err)
	}
	first, last := elems[0], elems[len(elems)-1]
	switch c.Mut {
	case "version":
		// the first non-whitespace byte of the first element is the version indicator
		i := first.start
		for isWS(doc[i]) {
			i++
		}
		return doc[:i] + "1" + doc[i+1:], nil
	case "stray":
		p := last.end + len("</pre>")
		return doc[:p] + "\n</pre>" + doc[p:], nil
	case "nested":
		p := first.start + (first.end-first.start)/2
		return doc[:p] + "<pre>" + doc[p:], nil
	case "unterminated":
		return doc[:last.end] + doc[last.end+len("</pre>"):], nil
	case "oversize":
		p := first.start
		return doc[:p] + strings.Repeat(" ", 33*1024) + doc[p:], nil
	case "badb64":
		// replace one base64 character (not the version byte) by a character outside the alphabet
		i := first.start
		for isWS(doc[i]) {
			i++
		}
		i++ // version byte
		for i < first.end && isWS(doc[i]) {
			i++
		}
		if i >= first.end {
			return "", fmt.Errorf("no base64 text to corrupt")
		}
		return doc[:i] + "!" + doc[i+1:], nil
	}
	return doc, nil
}

func runArmor(_ *testing.T, c acase) error {
	data := payload(c.Size, c.Seed)
	doc, err := encode(c, data)
	if err != nil {
		return fmt.Errorf("encode: %v", err)
	}
	if err := checkStructure(doc, data); err != nil {
		return fmt.Errorf("structure of the armored document (payload %d bytes): %v", c.Size, err)
	}
	if c.Mut != "" {
		bad, err := mutate(c, doc)
		if err != nil {
			return nil // nothing to corrupt (e.g. empty payload for badb64)
		}
		got, err := decode(c, bad)
		if err == nil {
			return fmt.Errorf("document with defect %q decoded without error to %d bytes (payload %d bytes)", c.Mut, len(got), c.Size)
		}
		if errors.Is(err, errWorkerLeft) {
			return fmt.Errorf("document with defect %q (payload %d bytes): %v", c.Mut, c.Size, err)
		}
		return nil
	}
	got, err := decode(c, doc)
	if err != nil || !bytes.Equal(got, data) {
		return fmt.Errorf("decode(encode(x)) != x: payload %d bytes, got %d bytes, err %v (writes %v reads %v srcreads %v)", c.Size, len(got), err, c.Writes, c.Reads, c.SrcReads)
	}
	if len(c.WS) > 0 || len(c.Inserts) > 0 || c.Wrap {
		rw, err := rewrite(c, doc)
		if err != nil {
			return err
		}
		got, err := decode(c, rw)
		if err != nil || !bytes.Equal(got, data) {
			return fmt.Errorf("decoding changed after cache-style rewriting: payload %d bytes, got %d bytes, err %v\n rewritten head: %q", c.Size, len(got), err, clip(rw[len(boilerStart)-8:]))
		}
	}
	return nil
}

var wsRuns = []string{" ", "\t", "\n", "\r", "\f", "\r\n", "  ", " \n ", "\n\n\n", "\t \f", "          "}
var outside = []string{"<div>", "</div>", "<p>cached copy</p>", "<!-- amp cache -->", "<span class=\"a b\" data-x='1'>", "</span>", "text outside", "<b>0AAAA</b>", "&amp;&lt;", "<img src=x>", "<br/>", "\n\n", "<script>var pre = 1;</script>", "<amp-analytics type=\"x\"></amp-analytics>",
	// pre elements without any word are markup outside the data-bearing pre elements too
	"<pre></pre>", "<pre>\n</pre>", "<pre> \t</pre>"}

func genSize(t *rapid.T) int {
	switch rapid.IntRange(0, 9).Draw(t, "sizeclass") {
	case 0:
		return rapid.IntRange(0, 3).Draw(t, "size")
	case 1, 2:
		// word boundaries: 24 payload bytes = 32 base64 chars; the first word also holds the version byte
		k := rapid.IntRange(0, 8).Draw(t, "words")
		return max0(24*k + rapid.IntRange(-2, 2).Draw(t, "delta"))
	case 3:
		// element boundary: 992 words of 32 chars per element, first char is the version byte
		chars := 992*32 - 1
		k := rapid.IntRange(1, 3).Draw(t, "elems")
		return max0(chars*k*3/4 + rapid.IntRange(-4, 4).Draw(t, "delta"))
	case 4:
		return rapid.IntRange(60000, 150000).Draw(t, "size")
	default:
		return rapid.IntRange(0, 3000).Draw(t, "size")
	}
}

func max0(n int) int {
	if n < 0 {
		return 0
	}
	return n
}

func genCase(t *rapid.T) acase {
	c := acase{Size: genSize(t), Seed: rapid.Uint64Range(0, 1<<16).Draw(t, "seed")}
	if rapid.Bool().Draw(t, "chunkw") {
		c.Writes = rapid.SliceOfN(rapid.OneOf(rapid.IntRange(1, 5), rapid.IntRange(1, 100), rapid.IntRange(1, 40000)), 1, 4).Draw(t, "writes")
	}
	if rapid.Bool().Draw(t, "chunkr") {
		c.Reads = rapid.SliceOfN(rapid.OneOf(rapid.IntRange(1, 5), rapid.IntRange(1, 100), rapid.IntRange(1, 40000)), 1, 4).Draw(t, "reads")
		if c.Size > 20000 {
			for i := range c.Reads {
				if c.Reads[i] < 64 {
					c.Reads[i] += 64
				}
			}
		}
	}
	if rapid.Bool().Draw(t, "chunks") {
		c.SrcReads = rapid.SliceOfN(rapid.OneOf(rapid.IntRange(1, 5), rapid.IntRange(1, 100), rapid.IntRange(1, 40000)), 1, 4).Draw(t, "srcreads")
		if c.Size > 20000 {
			for i := range c.SrcReads {
				if c.SrcReads[i] < 64 {
					c.SrcReads[i] += 64
				}
			}
		}
	}
	switch rapid.IntRange(0, 9).Draw(t, "variant") {
	case 0, 1, 2, 3:
		c.WS = rapid.SliceOfN(rapid.SampledFrom(wsRuns), 1, 5).Draw(t, "ws")
		n := rapid.IntRange(0, 4).Draw(t, "ninserts")
		for i := 0; i < n; i++ {
			c.Inserts = append(c.Inserts, insert{At: rapid.IntRange(0, 6).Draw(t, "at"), Text: rapid.SampledFrom(outside).Draw(t, "text")})
		}
		c.Wrap = rapid.Bool().Draw(t, "wrap")
	case 4, 5:
		c.Mut = rapid.SampledFrom([]string{"version", "stray", "nested", "unterminated", "oversize", "badb64"}).Draw(t, "mut")
	}
	return c
}

func classify(c acase) (bool, []string) {
	var labels []string
	if c.Mut != "" {
		labels = append(labels, "defect="+c.Mut)
	}
	if len(c.WS) > 0 || len(c.Inserts) > 0 || c.Wrap {
		labels = append(labels, "rewritten")
	}
	if c.Size > 23808 {
		labels = append(labels, ">1 element")
	}
	chunked := len(c.Writes) > 0 || len(c.Reads) > 0 || len(c.SrcReads) > 0
	if chunked {
		labels = append(labels, "chunked io")
	}
	return c.Size > 24 && (chunked || len(c.WS) > 0 || len(c.Inserts) > 0 || c.Mut != ""), labels
}

var uArmor = vstat.New("C10", "c10_armor")

func init() { vstat.Register(uArmor, runArmor) }

func TestVerifC10Armor(t *testing.T) {
	defer uArmor.Flush()
	rapid.Check(t, func(rt *rapid.T) {
		c := genCase(rt)
		nt, labels := classify(c)
		uArmor.Journal(c) // the decoder runs in its own goroutine: a panic there kills the process
		vstat.Run(uArmor, t, rt, c, nt, labels, runArmor)
	})
	uArmor.JournalDone()
}

// ---------------------------------------------------------------------------
// arbitrary decoder input: data or error, no panic, no hang, bounded buffering

type dcase struct {
	Pieces   []string `json:"pieces"`
	Infinite string   `json:"infinite,omitempty"` // unit repeated forever after the pieces
	SrcReads []int    `json:"srcreads,omitempty"`
}

type endless struct {
	head     *fragReader
	unit     string
	pos      int
	consumed int64
}

func (r *endless) Read(p []byte) (int, error) {
	if r.head != nil {
		n, err := r.head.Read(p)
		if err == nil {
			r.consumed += int64(n)
			return n, nil
		}
		r.head = nil
		if r.unit == "" {
			return 0, io.EOF
		}
	}
	if r.consumed > 8<<20 {
		return 0, errors.New("harness: decoder consumed more than 8 MiB of an endless text run")
	}
	n := 0
	for n < len(p) && n < 4096 {
		p[n] = r.unit[r.pos%len(r.unit)]
		r.pos++
		n++
	}
	r.consumed += int64(n)
	return n, nil
}

const consumeLimit = 1 << 20

func runDecoder(_ *testing.T, c dcase) error {
	doc := strings.Join(c.Pieces, "")
	src := &endless{head: &fragReader{s: doc, sizes: c.SrcReads}, unit: c.Infinite}
	dec, err := amp.NewArmorDecoder(src)
	var out int64
	if err == nil {
		buf := make([]byte, 4096)
		for {
			n, e := dec.Read(buf)
			out += int64(n)
			if e != nil {
				err = e
				break
			}
			if out > 16<<20 {
				return fmt.Errorf("decoder produced more than 16 MiB from %d bytes of input", src.consumed)
			}
		}
	}
	if c.Infinite != "" {
		// an endless run of text without markup can never be completed into a valid document
		// element: the decoder has to give up, and after a bounded amount of input
		if err == io.EOF || err == nil {
			return fmt.Errorf("endless input reported as a complete document")
		}
		if src.consumed > consumeLimit+int64(len(doc)) {
			return fmt.Errorf("decoder consumed %d bytes of an endless markup-free text run before failing (%v); buffering must be bounded", src.consumed, err)
		}
	}
	return nil
}

var pieces = []string{"<pre>", "</pre>", "<pre>\n0", "0", "1", "AAAA", "QUJD", "QUJDRA==", "=", "\n", " ", "\t", "\r\n", "\f", "<b>", "</b>", "<!--", "-->", "&amp;", "<pre ", ">", "<PRE>", "</PRE >", "<pre/>", "<pre class=x>", strings.Repeat("A", 40), strings.Repeat("QUJD", 10), "<", "</", "<script>", "</script>", "<textarea>", "<plaintext>", "\x00", "<html amp>", "<body>", boilerStart, boilerEnd, "<![CDATA[", "]]>", "<pre>\n0QUJD\n</pre>\n"}

func genDecoderCase(t *rapid.T) dcase {
	c := dcase{}
	c.Pieces = rapid.SliceOfN(rapid.OneOf(rapid.SampledFrom(pieces), rapid.StringN(0, 8, -1)), 0, 24).Draw(t, "pieces")
	if c.Pieces == nil {
		c.Pieces = []string{}
	}
	if rapid.IntRange(0, 3).Draw(t, "endless") == 0 {
		c.Infinite = rapid.SampledFrom([]string{"A", "QUJD ", " ", "\n", "x y z ", "0", "AAAA\n", "&amp; "}).Draw(t, "unit")
	}
	if rapid.Bool().Draw(t, "frag") {
		c.SrcReads = rapid.SliceOfN(rapid.IntRange(1, 50), 1, 3).Draw(t, "srcreads")
	}
	return c
}

var uDec = vstat.New("C10", "c10_decoder")

func init() { vstat.Register(uDec, runDecoder) }

func TestVerifC10Decoder(t *testing.T) {
	defer uDec.Flush()
	rapid.Check(t, func(rt *rapid.T) {
		c := genDecoderCase(rt)
		labels := []string{}
		if c.Infinite != "" {
			labels = append(labels, "endless text")
		}
		npre := 0
		for _, p := range c.Pieces {
			if strings.Contains(strings.ToLower(p), "pre") {
				npre++
			}
		}
		uDec.Journal(c)
		vstat.Run(uDec, t, rt, c, npre >= 1 && len(c.Pieces) >= 3, labels, runDecoder)
	})
	uDec.JournalDone()
}

func TestVerifReplay(t *testing.T) { vstat.RunReplays(t) }

func FuzzC10Decoder(f *testing.F) {
	f.Add("<pre>\n0QUJD\n</pre>\n", uint8(0))
	f.Add(boilerStart+"<pre>\n0\n</pre>\n"+boilerEnd, uint8(2))
	f.Add("<pre>0<pre>", uint8(1))
	f.Fuzz(func(t *testing.T, doc string, mode uint8) {
		c := dcase{Pieces: []string{doc}}
		if mode%4 == 1 {
			c.Infinite = "A"
		}
		if mode%4 == 2 {
			c.SrcReads = []int{1 + int(mode>>2)}
		}
		if err := vstat.Safely(func() error { return runDecoder(t, c) }); err != nil {
			t.Fatalf("%s", uDec.Fail(c, "%v", err))
		}
	})
}

func FuzzC10Rapid(f *testing.F) {
	f.Fuzz(rapid.MakeFuzz(func(rt *rapid.T) {
		c := genCase(rt)
		if c.Size > 40000 {
			c.Size %= 40000
		}
		if err := vstat.Safely(func() error { return runArmor(nil, c) }); err != nil {
			rt.Fatalf("%s", uArmor.Fail(c, "%v", err))
		}
	}))
}
