// C17 Turbotunnel packet adapters: no surfaced errors, leaks or aliasing.
// (a) RedialPacketConn on a fake clock with scripted in-memory carriers,
// (b) QueuePacketConn against a bounded-FIFO model.
package c17

import (
	"bytes"
	"context"
	"errors"
	"fmt"
	"net"
	"runtime"
	"strings"
	"sync"
	"sync/atomic"
	"testing"
	"testing/synctest"
	"time"

	"git.torproject.org/pluggable-transports/snowflake.git/v2/common/turbotunnel"
	"pgregory.net/rapid"
	"verif.local/vstat"
)

type addr string

func (a addr) Network() string { return "test" }
func (a addr) String() string  { return string(a) }

// ---------------------------------------------------------------------------
// scripted carrier

type carrier struct {
	id int
	mu sync.Mutex

	in         chan []byte   // packets for ReadFrom
	readErr    chan struct{} // closed: ReadFrom fails
	writeErr   bool          // next WriteTo fails
	writeBlock bool          // WriteTo blocks until the carrier is closed (a write on a dead transport), then fails
	out        [][]byte
	closes     int
	closedCh   chan struct{}
	readers    int // goroutines currently inside ReadFrom
}

func newCarrier(id int) *carrier {
	return &carrier{id: id, in: make(chan []byte, 64), readErr: make(chan struct{}), closedCh: make(chan struct{})}
}

var errCarrier = errors.New("carrier failed")

func (c *carrier) ReadFrom(p []byte) (int, net.Addr, error) {
	c.mu.Lock()
	c.readers++
	c.mu.Unlock()
	defer func() { c.mu.Lock(); c.readers--; c.mu.Unlock() }()
	select {
	case b := <-c.in:
		return copy(p, b), addr("carrier-remote"), nil
	case <-c.readErr:
		return 0, nil, errCarrier
	case <-c.closedCh:
		return 0, nil, errors.New("use of closed carrier")
	}
}

func (c *carrier) WriteTo(p []byte, a net.Addr) (int, error) {
	c.mu.Lock()
	if c.writeBlock {
		c.mu.Unlock()
		<-c.closedCh
		return 0, errors.New("use of closed carrier")
	}
	defer c.mu.Unlock()
	select {
	case <-c.closedCh:
		return 0, errors.New("use of closed carrier")
	default:
	}
	if c.writeErr {
		return 0, errCarrier
	}
	c.out = append(c.out, append([]byte{}, p...))
	return len(p), nil
}

func (c *carrier) Close() error {
	c.mu.Lock()
	defer c.mu.Unlock()
	c.closes++
	if c.closes == 1 {
		close(c.closedCh)
	}
	return nil
}

func (c *carrier) isClosed() bool {
	c.mu.Lock()
	defer c.mu.Unlock()
	return c.closes > 0
}

func (c *carrier) LocalAddr() net.Addr                { return addr("carrier-local") }
func (c *carrier) SetDeadline(t time.Time) error      { return nil }
func (c *carrier) SetReadDeadline(t time.Time) error  { return nil }
func (c *carrier) SetWriteDeadline(t time.Time) error { return nil }

// ---------------------------------------------------------------------------
// case

type cspec struct {
	DialDelay    int64  `json:"dialdelay"`        // ns
	Up           int    `json:"up"`               // packets written by the user while this carrier is healthy
	Down         int    `json:"down"`             // packets delivered by the carrier
	Fail         string `json:"fail"`             // read | write | both | read-while-write-blocked | none / close-while-write-blocked (only for the carrier alive at Close)
	UpDuringDial int    `json:"updial,omitempty"` // packets written while the dial is pending
}

type rcase struct {
	Carriers        []cspec `json:"carriers"`
	DialError       bool    `json:"dialerror,omitempty"` // the dial after the last carrier fails
	CloseTwice      bool    `json:"closetwice,omitempty"`
	CloseDuringDial bool    `json:"closeduringdial,omitempty"`
}

func pkt(kind string, carrier, n int) []byte {
	return []byte(fmt.Sprintf("%s-c%d-#%d-%s", kind, carrier, n, strings.Repeat("x", n%7)))
}

func pkgGoroutines() (n int, dump string) {
	buf := make([]byte, 1<<20)
	buf = buf[:runtime.Stack(buf, true)]
	for _, g := range strings.Split(string(buf), "\n\n") {
		if strings.Contains(g, "common/turbotunnel.(*RedialPacketConn)") {
			n++
			dump += g + "\n\n"
		}
	}
	return
}

func runRedial(t *testing.T, c rcase) (err error) {
	var failMu sync.Mutex
	fail := func(format string, a ...any) {
		failMu.Lock()
		defer failMu.Unlock()
		if err == nil {
			err = fmt.Errorf(format, a...)
		}
	}
	defer func() {
		if r := recover(); r != nil {
			msg := fmt.Sprint(r)
			if strings.Contains(msg, "blocked goroutines remain") || strings.Contains(msg, "deadlock") {
				fail("goroutines are still blocked inside the redialing connection after Close and quiescence (%s)", msg)
				return
			}
			panic(r)
		}
	}()
	base, _ := pkgGoroutines()
	synctest.Test(t, func(st *testing.T) {
		var mu sync.Mutex
		var carriers []*carrier
		dialed := make(chan *carrier, 128)
		// (a wrapped error: its concrete type differs from the connection's own "closed" error, as a real
		// dialer's *net.OpError does)
		dialErr := fmt.Errorf("dial failed: %w", errors.New("connection refused"))
		next := 0
		dial := func(ctx context.Context) (net.PacketConn, error) {
			mu.Lock()
			i := next
			next++
			prev := append([]*carrier{}, carriers...)
			mu.Unlock()
			for _, p := range prev {
				if !p.isClosed() {
					fail("carrier #%d is dialled while carrier #%d has not been closed: two carriers active", i, p.id)
				}
			}
			if i >= len(c.Carriers) {
				if c.DialError {
					return nil, dialErr
				}
				// no scripted carrier left: like a real dialer, take a while and come back with
				// an idle carrier (the connection does not cancel a dial in progress)
				time.Sleep(10 * time.Second)
				cr := newCarrier(i)
				mu.Lock()
				carriers = append(carriers, cr)
				mu.Unlock()
				return cr, nil
			}
			time.Sleep(time.Duration(c.Carriers[i].DialDelay))
			cr := newCarrier(i)
			mu.Lock()
			carriers = append(carriers, cr)
			mu.Unlock()
			dialed <- cr
			return cr, nil
		}
		rc := turbotunnel.NewRedialPacketConn(addr("local"), addr("remote"), dial)
		var pendingUp [][]byte // written by the user, not yet seen by a carrier
		userBuf := make([]byte, 1500)
		write := func(p []byte) {
			n := copy(userBuf, p)
			w, e := rc.WriteTo(userBuf[:n], addr("ignored"))
			if e != nil || w != n {
				fail("WriteTo returned (%d,%v) while the connection is open", w, e)
			}
			for i := range userBuf[:n] {
				userBuf[i] = 0xEE // the caller reuses its buffer
			}
			pendingUp = append(pendingUp, p)
		}
		closedEarly := false
		for i, cs := range c.Carriers {
			for k := 0; k < cs.UpDuringDial; k++ {
				write(pkt("up-dial", i, k))
			}
			if c.CloseDuringDial && i == len(c.Carriers)-1 && cs.DialDelay > 0 {
				time.Sleep(time.Duration(cs.DialDelay) / 2)
				synctest.Wait()
				if e := rc.Close(); e != nil {
					fail("first Close returned %v", e)
				}
				closedEarly = true
				break
			}
			var cr *carrier
			select {
			case cr = <-dialed:
			case <-time.After(time.Duration(cs.DialDelay) + time.Hour):
				fail("carrier #%d was never dialled", i)
				return
			}
			for k := 0; k < cs.Up; k++ {
				write(pkt("up", i, k))
			}
			for k := 0; k < cs.Down; k++ {
				cr.in <- pkt("down", i, k)
			}
			synctest.Wait()
			// upstream: everything pending must have reached this carrier, in order, unmodified
			cr.mu.Lock()
			var got [][]byte
			for _, p := range cr.out {
				// a "trigger" packet that the failing carrier's writer never picked up is
				// legitimately delivered by the next carrier
				if string(p) != "trigger" {
					got = append(got, p)
				}
			}
			cr.mu.Unlock()
			if len(got) != len(pendingUp) {
				fail("carrier #%d received %d packets, %d were written", i, len(got), len(pendingUp))
			} else {
				for k := range got {
					if !bytes.Equal(got[k], pendingUp[k]) {
						fail("carrier #%d packet %d: got %q want %q (caller buffer aliased or reordered)", i, k, got[k], pendingUp[k])
					}
				}
			}
			pendingUp = nil
			// downstream
			rbuf := make([]byte, 1500)
			for k := 0; k < cs.Down; k++ {
				n, a, e := rc.ReadFrom(rbuf)
				if e != nil {
					fail("ReadFrom returned error %v while the connection is open", e)
					break
				}
				if !bytes.Equal(rbuf[:n], pkt("down", i, k)) || a == nil || a.String() != "remote" {
					fail("ReadFrom returned %q from %v, want %q from remote", rbuf[:n], a, pkt("down", i, k))
				}
				for j := range rbuf {
					rbuf[j] = 0xDD
				}
			}
			// now the carrier fails in the scripted order
			switch cs.Fail {
			case "read":
				close(cr.readErr)
			case "write":
				// reader is parked in ReadFrom; a write fails
				cr.mu.Lock()
				cr.writeErr = true
				cr.mu.Unlock()
				w, e := rc.WriteTo([]byte("trigger"), nil)
				if e != nil || w != 7 {
					fail("WriteTo returned (%d,%v) while the connection is open", w, e)
				}
			case "both":
				cr.mu.Lock()
				cr.writeErr = true
				cr.mu.Unlock()
				close(cr.readErr)
				rc.WriteTo([]byte("trigger"), nil)
			case "read-while-write-blocked", "close-while-write-blocked":
				// the writer is inside a WriteTo that only returns once the carrier is closed ...
				cr.mu.Lock()
				cr.writeBlock = true
				cr.mu.Unlock()
				w, e := rc.WriteTo([]byte("trigger"), nil)
				if e != nil || w != 7 {
					fail("WriteTo returned (%d,%v) while the connection is open", w, e)
				}
				synctest.Wait()
				// ... when the read side fails (or, for the last carrier, when the user closes the connection)
				if cs.Fail == "read-while-write-blocked" {
					close(cr.readErr)
				}
			case "none":
			}
			synctest.Wait()
			if cs.Fail != "none" && cs.Fail != "close-while-write-blocked" && !cr.isClosed() && cs.DialDelay >= 0 {
				// the failed carrier must be closed once the loop has moved on (it is closed before the next dial)
				time.Sleep(time.Nanosecond)
				synctest.Wait()
				if !cr.isClosed() {
					fail("carrier #%d failed (%s) but was not closed", i, cs.Fail)
				}
			}
		}
		if c.DialError && !closedEarly {
			synctest.Wait()
			_, _, e := rc.ReadFrom(make([]byte, 10))
			if e == nil || !strings.Contains(e.Error(), "dial failed") {
				fail("after a dial error ReadFrom returned %v, want the dial error", e)
			}
			if _, e := rc.WriteTo([]byte("x"), nil); e == nil {
				fail("after a dial error WriteTo succeeded")
			}
		}
		if !closedEarly {
			e := rc.Close()
			if !c.DialError && e != nil {
				fail("first Close returned %v", e)
			}
		}
		if c.CloseTwice {
			if e := rc.Close(); e == nil {
				fail("second Close returned nil, want an error")
			}
		}
		time.Sleep(30 * time.Second)
		synctest.Wait()
		if _, _, e := rc.ReadFrom(make([]byte, 10)); e == nil {
			fail("ReadFrom succeeded after Close")
		}
		if _, e := rc.WriteTo([]byte("x"), nil); e == nil {
			fail("WriteTo succeeded after Close")
		}
		mu.Lock()
		for _, cr := range carriers {
			if !cr.isClosed() {
				fail("carrier #%d was obtained from a dial and never closed", cr.id)
			}
		}
		mu.Unlock()
		if n, dump := pkgGoroutines(); n-base > 0 {
			fail("%d goroutine(s) still inside the redialing connection after Close and quiescence (%d carriers used):\n%s", n-base, len(c.Carriers), clip(dump, 1800))
		}
	})
	return err
}

func clip(s string, n int) string {
	if len(s) > n {
		return s[:n]
	}
	return s
}

var uRedial = vstat.New("C17", "c17_redial")

func init() { vstat.Register(uRedial, runRedial) }

func TestVerifC17Redial(t *testing.T) {
	defer uRedial.Flush()
	rapid.Check(t, func(rt *rapid.T) {
		var c rcase
		n := rapid.IntRange(1, vstat.Pick(12, 60)).Draw(rt, "ncarriers")
		labels := map[string]bool{}
		for i := 0; i < n; i++ {
			cs := cspec{
				DialDelay: rapid.SampledFrom([]int64{0, 0, 1, int64(time.Second), int64(3 * time.Second)}).Draw(rt, "delay"),
				Up:        rapid.IntRange(0, 4).Draw(rt, "up"),
				Down:      rapid.IntRange(0, 4).Draw(rt, "down"),
				Fail:      rapid.SampledFrom([]string{"read", "write", "write", "both", "read-while-write-blocked"}).Draw(rt, "fail"),
			}
			if cs.DialDelay > 0 {
				cs.UpDuringDial = rapid.IntRange(0, 2).Draw(rt, "updial")
			}
			if i == n-1 && rapid.Bool().Draw(rt, "lastalive") {
				cs.Fail = rapid.SampledFrom([]string{"none", "none", "close-while-write-blocked"}).Draw(rt, "lastfail")
			}
			labels["fail="+cs.Fail] = true
			c.Carriers = append(c.Carriers, cs)
		}
		last := c.Carriers[n-1]
		if last.Fail != "none" && last.Fail != "close-while-write-blocked" {
			c.DialError = rapid.Bool().Draw(rt, "dialerror")
		}
		c.CloseTwice = rapid.Bool().Draw(rt, "closetwice")
		if last.DialDelay > 1 {
			c.CloseDuringDial = rapid.IntRange(0, 3).Draw(rt, "closeduringdial") == 0
		}
		var ls []string
		for l := range labels {
			ls = append(ls, l)
		}
		if c.DialError {
			ls = append(ls, "final dial error")
		}
		if c.CloseDuringDial {
			ls = append(ls, "close during dial")
		}
		vstat.Run(uRedial, t, rt, c, labels["fail=write"], ls, runRedial)
	})
}

// ---------------------------------------------------------------------------
// (b) QueuePacketConn against bounded FIFOs

type qop struct {
	Op   string `json:"op"` // in | read | write | recv | fillout | fillin | close
	Addr int    `json:"addr,omitempty"`
	N    int    `json:"n,omitempty"`
}

type qcase struct {
	Ops []qop `json:"ops"`
}

const queueSize = 2048

// runQueue: every operation of the queue connection returns at once by design ("without blocking,
// dropping when a queue is full"); an operation that does not return within 20 s is reported as such
// (the goroutine stuck in it is abandoned).
func runQueue(t *testing.T, c qcase) error {
	var cur atomic.Int64
	done := make(chan error, 1)
	go func() { done <- runQueueOps(t, c, &cur) }()
	select {
	case err := <-done:
		return err
	case <-time.After(20 * time.Second):
		i := int(cur.Load())
		return fmt.Errorf("op #%d (%s) blocked: it had not returned after 20 s, although no operation of the queue connection may block (a full queue drops)", i, c.Ops[i].Op)
	}
}

func runQueueOps(_ *testing.T, c qcase, cur *atomic.Int64) error {
	qc := turbotunnel.NewQueuePacketConn(addr("local"), time.Hour)
	addrs := []net.Addr{addr("A"), addr("B"), turbotunnel.ClientID{1, 2, 3, 4, 5, 6, 7, 8}, turbotunnel.ClientID{}}
	type tagged struct {
		p []byte
		a int
	}
	var inQ []tagged
	outQ := make([][][]byte, len(addrs))
	closed := false
	seq := 0
	buf := make([]byte, 64)
	mk := func() []byte {
		seq++
		return []byte(fmt.Sprintf("pkt-%d", seq))
	}
	for i, op := range c.Ops {
		cur.Store(int64(i))
		a := op.Addr % len(addrs)
		switch op.Op {
		case "in":
			p := mk()
			n := copy(buf, p)
			qc.QueueIncoming(buf[:n], addrs[a])
			for j := range buf[:n] {
				buf[j] = 0xEE
			}
			if !closed && len(inQ) < queueSize {
				inQ = append(inQ, tagged{p, a})
			}
		case "fillin":
			for k := 0; k < queueSize+3; k++ {
				p := mk()
				qc.QueueIncoming(p, addrs[a])
				if !closed && len(inQ) < queueSize {
					inQ = append(inQ, tagged{p, a})
				}
			}
		case "read":
			if closed {
				if _, _, err := qc.ReadFrom(buf); err == nil {
					return fmt.Errorf("op #%d: ReadFrom succeeded after Close", i)
				}
				continue
			}
			if len(inQ) == 0 {
				continue // would block by design
			}
			rb := make([]byte, 64)
			n, ra, err := qc.ReadFrom(rb)
			if err != nil {
				return fmt.Errorf("op #%d: ReadFrom returned %v", i, err)
			}
			want := inQ[0]
			inQ = inQ[1:]
			if !bytes.Equal(rb[:n], want.p) || ra != addrs[want.a] {
				return fmt.Errorf("op #%d: ReadFrom returned %q from %v, want %q from %v (FIFO order / aliasing)", i, rb[:n], ra, want.p, addrs[want.a])
			}
		case "write":
			p := mk()
			n := copy(buf, p)
			w, err := qc.WriteTo(buf[:n], addrs[a])
			for j := range buf[:n] {
				buf[j] = 0xEE
			}
			if closed {
				if err == nil {
					return fmt.Errorf("op #%d: WriteTo succeeded after Close", i)
				}
				continue
			}
			if err != nil || w != n {
				return fmt.Errorf("op #%d: WriteTo returned (%d,%v)", i, w, err)
			}
			if len(outQ[a]) < queueSize {
				outQ[a] = append(outQ[a], p)
			}
		case "fillout":
			for k := 0; k < queueSize+3; k++ {
				p := mk()
				_, err := qc.WriteTo(p, addrs[a])
				if closed {
					if err == nil {
						return fmt.Errorf("op #%d: WriteTo succeeded after Close", i)
					}
					break
				}
				if err != nil {
					return fmt.Errorf("op #%d: WriteTo returned %v", i, err)
				}
				if len(outQ[a]) < queueSize {
					outQ[a] = append(outQ[a], p)
				}
			}
		case "recv":
			q := qc.OutgoingQueue(addrs[a])
			for k := 0; k < op.N+1; k++ {
				if len(outQ[a]) == 0 {
					select {
					case p, ok := <-q:
						return fmt.Errorf("op #%d: outgoing queue of %v yields %q (open=%v) although the model says it is empty", i, addrs[a], p, ok)
					default:
					}
					break
				}
				select {
				case p, ok := <-q:
					if !ok || !bytes.Equal(p, outQ[a][0]) {
						return fmt.Errorf("op #%d: outgoing queue of %v yields %q (open=%v), want %q", i, addrs[a], p, ok, outQ[a][0])
					}
					outQ[a] = outQ[a][1:]
				default:
					return fmt.Errorf("op #%d: outgoing queue of %v is empty, the model holds %d packets", i, addrs[a], len(outQ[a]))
				}
			}
		case "close":
			err := qc.Close()
			if closed && err == nil {
				return fmt.Errorf("op #%d: second Close returned nil", i)
			}
			if !closed && err != nil {
				return fmt.Errorf("op #%d: first Close returned %v", i, err)
			}
			closed = true
		}
	}
	return nil
}

var uQueue = vstat.New("C17", "c17_queue")

func init() { vstat.Register(uQueue, runQueue) }

func TestVerifC17Queue(t *testing.T) {
	defer uQueue.Flush()
	rapid.Check(t, func(rt *rapid.T) {
		var c qcase
		n := rapid.IntRange(1, 60).Draw(rt, "nops")
		over := false
		for i := 0; i < n; i++ {
			op := qop{Op: rapid.SampledFrom([]string{"in", "in", "read", "read", "write", "write", "recv", "recv", "fillout", "fillin", "close"}).Draw(rt, "op"), Addr: rapid.IntRange(0, 3).Draw(rt, "addr"), N: rapid.IntRange(0, 5).Draw(rt, "n")}
			if (op.Op == "fillout" || op.Op == "fillin" || op.Op == "close") && rapid.IntRange(0, 3).Draw(rt, "rare") != 0 {
				op.Op = "write"
			}
			if op.Op == "fillout" || op.Op == "fillin" {
				over = true
			}
			c.Ops = append(c.Ops, op)
		}
		labels := []string{}
		if over {
			labels = append(labels, "overflow")
		}
		vstat.Run(uQueue, t, rt, c, true, labels, runQueue)
	})
}

func TestVerifReplay(t *testing.T) { vstat.RunReplays(t) }
