// C09 Packet framing round-trips under any read fragmentation.
//
// Generated: sequences of data chunks / paddings (lengths on every prefix-size
// boundary), optional non-minimal prefix encodings, truncation points, arbitrary
// byte strings; and a reader behaviour (fragmentation, zero-length reads, data
// returned together with io.EOF, io.Pipe fed one write per packet).
// Oracle: an independent reference decoder over the whole byte slice.
package c09

import (
	"bytes"
	"errors"
	"fmt"
	"io"
	"runtime"
	"testing"

	enc "git.torproject.org/pluggable-transports/snowflake.git/v2/common/encapsulation"
	"pgregory.net/rapid"
	"verif.local/vstat"
)

// ---------------------------------------------------------------------------
// case

type item struct {
	Pad    bool   `json:"pad,omitempty"`
	Len    int    `json:"len"`
	Seed   uint64 `json:"seed,omitempty"`
	Prefix int    `json:"prefix,omitempty"` // 0 = what the library writes; 1,2,3 = hand-built prefix of that many bytes
}

type reader struct {
	Kind    string `json:"kind"`              // plain | frag | pipe
	Sizes   []int  `json:"sizes,omitempty"`   // cyclic maximum read sizes (frag)
	Zeros   []int  `json:"zeros,omitempty"`   // cyclic number of (0,nil) returns before each real read (frag)
	DataEOF bool   `json:"dataeof,omitempty"` // last bytes are returned together with io.EOF (frag)
	ErrAt   int    `json:"errat,omitempty"`   // > 0: the reader fails with its own (non-EOF) error after this many bytes (frag)
	ErrWithData bool `json:"errwithdata,omitempty"` // the failing Read also returns the bytes before the error point
}

type fcase struct {
	Items  []item `json:"items,omitempty"`
	Raw    []byte `json:"raw,omitempty"` // arbitrary stream instead of items
	Trunc  int    `json:"trunc"`         // -1 = whole stream; otherwise keep this many bytes (clamped)
	Reader reader `json:"reader"`
}

func fill(p []byte, seed uint64) {
	x := seed*0x9E3779B97F4A7C15 + 0x1234567
	for i := range p {
		x ^= x << 13
		x ^= x >> 7
		x ^= x << 17
		p[i] = byte(x >> 32)
	}
}

func handPrefix(n, size int, data bool) []byte {
	var d byte
	if data {
		d = 0x80
	}
	switch size {
	case 1:
		return []byte{d | byte(n&0x3f)}
	case 2:
		return []byte{d | 0x40 | byte((n>>7)&0x3f), byte(n & 0x7f)}
	default:
		return []byte{d | 0x40 | byte((n>>14)&0x3f), 0x80 | byte((n>>7)&0x7f), byte(n & 0x7f)}
	}
}

func minPrefixSize(n int) int {
	switch {
	case n < 1<<6:
		return 1
	case n < 1<<13:
		return 2
	default:
		return 3
	}
}

// build renders the case into the byte stream, the per-packet boundaries (for the
// pipe behaviour) and returns them.
func (c *fcase) build() (stream []byte, cuts []int, err error) {
	if c.Raw != nil {
		stream = append(stream, c.Raw...)
	} else {
		var b bytes.Buffer
		for _, it := range c.Items {
			if it.Pad {
				if it.Prefix == 0 {
					n, e := enc.WritePadding(&b, it.Len)
					if e != nil || n != it.Len {
						return nil, nil, fmt.Errorf("WritePadding(%d) wrote %d bytes, err %v; want exactly %d", it.Len, n, e, it.Len)
					}
				} else {
					b.Write(handPrefix(it.Len, it.Prefix, false))
					p := make([]byte, it.Len)
					fill(p, it.Seed)
					b.Write(p)
				}
			} else {
				p := make([]byte, it.Len)
				fill(p, it.Seed)
				if it.Prefix == 0 {
					before := b.Len()
					n, e := enc.WriteData(&b, p)
					if e != nil {
						return nil, nil, fmt.Errorf("WriteData(len %d): %v", it.Len, e)
					}
					if n != b.Len()-before || n != it.Len+minPrefixSize(it.Len) {
						return nil, nil, fmt.Errorf("WriteData(len %d) reported %d bytes, wrote %d, expected %d", it.Len, n, b.Len()-before, it.Len+minPrefixSize(it.Len))
					}
				} else {
					b.Write(handPrefix(it.Len, it.Prefix, true))
					b.Write(p)
				}
			}
			cuts = append(cuts, b.Len())
		}
		stream = b.Bytes()
	}
	if c.Trunc >= 0 && c.Trunc < len(stream) {
		stream = stream[:c.Trunc]
	}
	return stream, cuts, nil
}

// ---------------------------------------------------------------------------
// reference decoder (independent of the library)

type term int

const (
	tEOF term = iota
	tUnexpected
	tTooLong
	tTooLongOrUnexpected // stream ends exactly after three prefix bytes that all ask for more
)

func (t term) String() string {
	return [...]string{"EOF", "ErrUnexpectedEOF", "ErrTooLong", "ErrTooLong|ErrUnexpectedEOF"}[t]
}

func refDecode(s []byte) (chunks [][]byte, t term) {
	pos := 0
	for {
		if pos == len(s) {
			return chunks, tEOF
		}
		b := s[pos]
		pos++
		isData := b&0x80 != 0
		more := b&0x40 != 0
		n := int(b & 0x3f)
		for k := 1; more; k++ {
			if k == 3 {
				if pos == len(s) {
					return chunks, tTooLongOrUnexpected
				}
				return chunks, tTooLong
			}
			if pos == len(s) {
				return chunks, tUnexpected
			}
			b = s[pos]
			pos++
			more = b&0x80 != 0
			n = n<<7 | int(b&0x7f)
		}
		if len(s)-pos < n {
			return chunks, tUnexpected
		}
		if isData {
			chunks = append(chunks, s[pos:pos+n])
		}
		pos += n
	}
}

// ---------------------------------------------------------------------------
// reader behaviours: everything here is permitted by the io.Reader contract

var errCarrier = errors.New("carrier broke (not EOF)")

type fragReader struct {
	errAt       int
	errWithData bool
	s           []byte
	pos     int
	sizes   []int
	zeros   []int
	k       int
	zleft   int
	primed  bool
	dataEOF bool
	done    bool
}

func (r *fragReader) Read(p []byte) (int, error) {
	if r.done {
		return 0, io.EOF
	}
	if len(p) == 0 {
		return 0, nil
	}
	if !r.primed {
		r.primed = true
		if len(r.zeros) > 0 {
			r.zleft = r.zeros[r.k%len(r.zeros)]
		}
	}
	if r.zleft > 0 {
		r.zleft--
		return 0, nil
	}
	r.primed = false
	if r.errAt > 0 && r.pos >= r.errAt {
		return 0, errCarrier
	}
	if r.pos == len(r.s) {
		r.done = true
		return 0, io.EOF
	}
	max := len(p)
	if r.errAt > 0 && r.pos+max >= r.errAt {
		// the read that reaches the error point
		max = r.errAt - r.pos
		if !r.errWithData {
			if max > 1 {
				max-- // stop one short now, fail on the next call
			}
		}
	}
	if len(r.sizes) > 0 {
		if m := r.sizes[r.k%len(r.sizes)]; m < max {
			max = m
		}
	}
	r.k++
	if max < 1 {
		max = 1
	}
	n := copy(p[:max], r.s[r.pos:])
	r.pos += n
	if r.errAt > 0 && r.pos >= r.errAt && r.errWithData {
		return n, errCarrier
	}
	if r.pos == len(r.s) && r.dataEOF {
		r.done = true
		return n, io.EOF
	}
	return n, nil
}

func makeReader(c *fcase, stream []byte, cuts []int) (io.Reader, func()) {
	switch c.Reader.Kind {
	case "frag":
		errAt := c.Reader.ErrAt
		if errAt >= len(stream) {
			errAt = 0 // the failure point lies beyond the stream: a plain end of stream
		}
		return &fragReader{s: stream, sizes: c.Reader.Sizes, zeros: c.Reader.Zeros, dataEOF: c.Reader.DataEOF, errAt: errAt, errWithData: c.Reader.ErrWithData}, func() {}
	case "pipe":
		pr, pw := io.Pipe()
		go func() {
			prev := 0
			for _, cut := range cuts {
				if cut > len(stream) {
					cut = len(stream)
				}
				if cut > prev {
					if _, err := pw.Write(stream[prev:cut]); err != nil {
						return
					}
					prev = cut
				}
			}
			if prev < len(stream) {
				pw.Write(stream[prev:])
			}
			pw.Close()
		}()
		return pr, func() { pr.Close() }
	default:
		return bytes.NewReader(stream), func() {}
	}
}

// ---------------------------------------------------------------------------
// the property

func runFraming(_ *testing.T, c fcase) error {
	stream, cuts, err := c.build()
	if err != nil {
		return err
	}
	want, wantTerm := refDecode(stream)
	injected := c.Reader.Kind == "frag" && c.Reader.ErrAt > 0 && c.Reader.ErrAt < len(stream)
	if injected {
		// only what lies wholly before the failure point may be delivered
		want, _ = refDecode(stream[:c.Reader.ErrAt])
	}
	r, closer := makeReader(&c, stream, cuts)
	defer closer()
	for i := 0; ; i++ {
		got, err := enc.ReadData(r)
		if err == nil {
			if i >= len(want) {
				return fmt.Errorf("chunk #%d: ReadData returned %d bytes of data but the stream holds only %d data chunks (terminal condition %v)", i, len(got), len(want), wantTerm)
			}
			if !bytes.Equal(got, want[i]) {
				return fmt.Errorf("chunk #%d: ReadData returned %d bytes %s, expected %d bytes %s", i, len(got), head(got), len(want[i]), head(want[i]))
			}
			continue
		}
		if got != nil {
			return fmt.Errorf("chunk #%d: ReadData returned data together with error %v", i, err)
		}
		if injected {
			if i != len(want) {
				return fmt.Errorf("reader fails with its own error after %d bytes: ReadData delivered %d chunks, %d lie wholly before that point", c.Reader.ErrAt, i, len(want))
			}
			return nil // any error is fine here; delivering a chunk that was never completely read is not
		}
		if i != len(want) {
			return fmt.Errorf("ReadData stopped with %v after %d chunks, the stream holds %d data chunks before its terminal condition %v", err, i, len(want), wantTerm)
		}
		ok := false
		switch wantTerm {
		case tEOF:
			ok = err == io.EOF
		case tUnexpected:
			ok = err == io.ErrUnexpectedEOF
		case tTooLong:
			ok = errors.Is(err, enc.ErrTooLong)
		case tTooLongOrUnexpected:
			ok = errors.Is(err, enc.ErrTooLong) || err == io.ErrUnexpectedEOF
		}
		if !ok {
			return fmt.Errorf("after %d chunks ReadData returned error %q, expected %v", i, err, wantTerm)
		}
		return nil
	}
}

func head(b []byte) string {
	if len(b) > 12 {
		return fmt.Sprintf("%x…", b[:12])
	}
	return fmt.Sprintf("%x", b)
}

var boundaryLens = []int{0, 1, 2, 62, 63, 64, 65, 127, 128, 8190, 8191, 8192, 8193, 16383, 16384}
var bigLens = []int{65535, 65536, 1<<20 - 2, 1<<20 - 1}

func genLen(t *rapid.T, big bool) int {
	switch rapid.IntRange(0, 9).Draw(t, "lenclass") {
	case 0, 1, 2, 3:
		return rapid.SampledFrom(boundaryLens).Draw(t, "len")
	case 4:
		if big {
			return rapid.SampledFrom(bigLens).Draw(t, "len")
		}
		return rapid.IntRange(0, 300).Draw(t, "len")
	case 5:
		return rapid.IntRange(0, 20000).Draw(t, "len")
	default:
		return rapid.IntRange(0, 200).Draw(t, "len")
	}
}

func genReader(t *rapid.T) reader {
	switch rapid.IntRange(0, 5).Draw(t, "rkind") {
	case 0:
		return reader{Kind: "plain"}
	case 1:
		return reader{Kind: "pipe"}
	default:
		r := reader{Kind: "frag"}
		r.Sizes = rapid.SliceOfN(rapid.OneOf(rapid.IntRange(1, 4), rapid.IntRange(1, 5000)), 0, 4).Draw(t, "sizes")
		if rapid.Bool().Draw(t, "zeros") {
			r.Zeros = rapid.SliceOfN(rapid.IntRange(0, 3), 1, 4).Draw(t, "zerolist")
		}
		r.DataEOF = rapid.Bool().Draw(t, "dataeof")
		if rapid.IntRange(0, 3).Draw(t, "inject") == 0 {
			r.ErrAt = rapid.OneOf(rapid.IntRange(1, 40), rapid.IntRange(1, 3000), rapid.IntRange(1, 70000)).Draw(t, "errat")
			r.ErrWithData = rapid.Bool().Draw(t, "errwithdata")
		}
		return r
	}
}

func genCase(t *rapid.T) fcase {
	c := fcase{Trunc: -1}
	mode := rapid.IntRange(0, 9).Draw(t, "mode")
	if mode == 0 {
		// arbitrary bytes, biased towards prefix-looking bytes
		c.Raw = rapid.SliceOfN(rapid.OneOf(rapid.Byte(), rapid.SampledFrom([]byte{0x00, 0x80, 0x40, 0xc0, 0xff, 0x7f, 0x81, 0x01, 0xbf})), 0, 64).Draw(t, "raw")
		if c.Raw == nil {
			c.Raw = []byte{}
		}
	} else {
		n := rapid.IntRange(0, 20).Draw(t, "nitems")
		budget := 3 << 20
		for i := 0; i < n; i++ {
			it := item{Pad: rapid.IntRange(0, 3).Draw(t, "pad") == 0}
			it.Len = genLen(t, budget > 2<<20)
			if it.Pad && rapid.IntRange(0, 3).Draw(t, "bigpad") == 0 {
				it.Len = rapid.IntRange(1020, 5000).Draw(t, "padlen") // several padding chunks
			}
			if it.Len > budget {
				it.Len = budget
			}
			budget -= it.Len
			it.Seed = rapid.Uint64Range(0, 1<<20).Draw(t, "seed")
			if rapid.IntRange(0, 3).Draw(t, "hand") == 0 {
				ms := minPrefixSize(it.Len)
				it.Prefix = rapid.IntRange(ms, 3).Draw(t, "prefixsize")
				if it.Pad && it.Len >= 1<<20 {
					it.Len = 1<<20 - 1
				}
			}
			c.Items = append(c.Items, it)
		}
		if mode >= 7 {
			c.Trunc = rapid.IntRange(0, 70000).Draw(t, "trunc")
			if rapid.Bool().Draw(t, "truncsmall") {
				c.Trunc = rapid.IntRange(0, 80).Draw(t, "trunc2")
			}
		}
	}
	c.Reader = genReader(t)
	return c
}

func classify(c fcase) (bool, []string) {
	ndata := 0
	for _, it := range c.Items {
		if !it.Pad {
			ndata++
		}
	}
	labels := []string{"reader=" + c.Reader.Kind}
	hostile := c.Reader.Kind == "pipe"
	if c.Reader.Kind == "frag" {
		if len(c.Reader.Sizes) > 0 {
			hostile = true
			labels = append(labels, "fragmenting")
		}
		for _, z := range c.Reader.Zeros {
			if z > 0 {
				hostile = true
				labels = append(labels, "zero-length reads")
				break
			}
		}
		if c.Reader.DataEOF {
			hostile = true
			labels = append(labels, "data+EOF")
		}
		if c.Reader.ErrAt > 0 {
			hostile = true
			labels = append(labels, "reader error mid-stream")
		}
	}
	if c.Raw != nil {
		labels = append(labels, "arbitrary bytes")
	}
	if c.Trunc >= 0 {
		labels = append(labels, "truncated")
	}
	for _, it := range c.Items {
		if it.Prefix > minPrefixSize(it.Len) {
			labels = append(labels, "non-minimal prefix")
			break
		}
	}
	for _, it := range c.Items {
		if it.Len >= 65535 {
			labels = append(labels, "chunk>=64Ki")
			break
		}
	}
	if ndata >= 2 {
		labels = append(labels, "chunks>=2")
	}
	return hostile && (ndata >= 2 || (c.Raw != nil && len(c.Raw) >= 2)), labels
}

var uFraming = vstat.New("C09", "c09_framing")

func init() { vstat.Register(uFraming, runFraming) }

func TestVerifC09Framing(t *testing.T) {
	defer uFraming.Flush()
	rapid.Check(t, func(rt *rapid.T) {
		c := genCase(rt)
		nt, labels := classify(c)
		vstat.Run(uFraming, t, rt, c, nt, labels, runFraming)
	})
}

// ---------------------------------------------------------------------------
// padding occupies exactly n bytes and is invisible; budget helper never exceeds

type countW struct{ n int }

func (w *countW) Write(p []byte) (int, error) { w.n += len(p); return len(p), nil }

type sizeCase struct {
	N int `json:"n"`
}

var zeros = make([]byte, 1<<20)

func runBudget(_ *testing.T, c sizeCase) error {
	m := enc.MaxDataForSize(c.N)
	if m < 0 || m > 1<<20-1 {
		return fmt.Errorf("MaxDataForSize(%d) = %d is not a chunk size", c.N, m)
	}
	var w countW
	n, err := enc.WriteData(&w, zeros[:m])
	if err != nil {
		return fmt.Errorf("MaxDataForSize(%d) = %d but WriteData of that many bytes fails: %v", c.N, m, err)
	}
	if n > c.N || w.n > c.N {
		return fmt.Errorf("MaxDataForSize(%d) = %d but the encoded chunk occupies %d bytes", c.N, m, w.n)
	}
	return nil
}

func runPadding(_ *testing.T, c sizeCase) error {
	var b bytes.Buffer
	n, err := enc.WritePadding(&b, c.N)
	if err != nil || n != c.N || b.Len() != c.N {
		return fmt.Errorf("WritePadding(%d) returned (%d,%v) and wrote %d bytes; want exactly %d", c.N, n, err, b.Len(), c.N)
	}
	chunks, term := refDecode(b.Bytes())
	if len(chunks) != 0 || term != tEOF {
		return fmt.Errorf("WritePadding(%d) output decodes (reference decoder) to %d data chunks, terminal %v", c.N, len(chunks), term)
	}
	got, err := enc.ReadData(&b)
	if got != nil || err != io.EOF {
		return fmt.Errorf("ReadData over WritePadding(%d) returned (%v,%v); padding must be invisible", c.N, got, err)
	}
	return nil
}

var uBudget = vstat.New("C09", "c09_budget")
var uPadding = vstat.New("C09", "c09_padding")

func init() {
	vstat.Register(uBudget, runBudget)
	vstat.Register(uPadding, runPadding)
}

// Exhaustive over 1..2^21 (sharded), random above.
func TestVerifC09Budget(t *testing.T) {
	defer uBudget.Flush()
	shards := vstat.Shards()
	lim := vstat.Pick(1<<18, 1<<21)
	for n := 1 + vstat.Shard(); n <= lim; n += shards {
		c := sizeCase{N: n}
		// non-trivial: budgets at which the prefix size changes (within 4 of a boundary)
		nt := near(n, 64) || near(n, 1<<13) || near(n, 1<<20)
		uBudget.Case(c, nt)
		if err := runBudget(t, c); err != nil {
			t.Fatalf("%s", uBudget.Fail(c, "%v", err))
		}
	}
	uBudget.Add("exhaustive_upto", int64(lim))
	rapid.Check(t, func(rt *rapid.T) {
		c := sizeCase{N: rapid.IntRange(1, 1<<40).Draw(rt, "n")}
		vstat.Run(uBudget, t, rt, c, c.N > 1<<20, []string{"random budget"}, runBudget)
	})
}

func near(n, b int) bool { return n >= b-4 && n <= b+4 }

func TestVerifC09Padding(t *testing.T) {
	defer uPadding.Flush()
	shards := vstat.Shards()
	lim := vstat.Pick(6000, 40000)
	for n := vstat.Shard(); n <= lim; n += shards {
		c := sizeCase{N: n}
		uPadding.Case(c, n > 1024 || near(n, 64) || near(n, 1024), "exhaustive range")
		if err := runPadding(t, c); err != nil {
			t.Fatalf("%s", uPadding.Fail(c, "%v", err))
		}
	}
	uPadding.Add("exhaustive_upto", int64(lim))
	rapid.Check(t, func(rt *rapid.T) {
		c := sizeCase{N: rapid.IntRange(0, 1<<21).Draw(rt, "n")}
		vstat.Run(uPadding, t, rt, c, c.N > 1024, []string{"random size"}, runPadding)
	})
}

// ---------------------------------------------------------------------------
// allocation bound on hostile prefixes: never more than the announced chunk

type allocCase struct {
	Announce int  `json:"announce"`
	Have     int  `json:"have"`
	Pad      bool `json:"pad"`
}

func runAlloc(_ *testing.T, c allocCase) error {
	s := append(handPrefix(c.Announce, 3, !c.Pad), zeros[:c.Have]...)
	r := bytes.NewReader(s)
	runtime.GC()
	var m0, m1 runtime.MemStats
	runtime.ReadMemStats(&m0)
	got, err := enc.ReadData(r)
	runtime.ReadMemStats(&m1)
	delta := int64(m1.TotalAlloc - m0.TotalAlloc)
	if delta > int64(c.Announce)+64<<10 {
		return fmt.Errorf("ReadData allocated %d bytes for a chunk announced as %d bytes", delta, c.Announce)
	}
	if c.Have < c.Announce && (got != nil || err != io.ErrUnexpectedEOF) {
		return fmt.Errorf("announced %d, present %d: ReadData returned (%d bytes, %v), want ErrUnexpectedEOF", c.Announce, c.Have, len(got), err)
	}
	return nil
}

var uAlloc = vstat.New("C09", "c09_alloc")

func init() { vstat.Register(uAlloc, runAlloc) }

func TestVerifC09Alloc(t *testing.T) {
	defer uAlloc.Flush()
	rapid.Check(t, func(rt *rapid.T) {
		c := allocCase{Announce: rapid.OneOf(rapid.IntRange(0, 1<<20-1), rapid.SampledFrom([]int{1<<20 - 1, 1 << 19, 65536})).Draw(rt, "announce"),
			Pad: rapid.Bool().Draw(rt, "pad")}
		c.Have = rapid.IntRange(0, c.Announce).Draw(rt, "have")
		if rapid.Bool().Draw(rt, "short") {
			c.Have = rapid.IntRange(0, 16).Draw(rt, "have2")
			if c.Have > c.Announce {
				c.Have = c.Announce
			}
		}
		vstat.Run(uAlloc, t, rt, c, c.Have < c.Announce, nil, runAlloc)
	})
}

func TestVerifReplay(t *testing.T) { vstat.RunReplays(t) }

// ---------------------------------------------------------------------------
// native fuzzing (thorough tier): arbitrary bytes as the stream, first bytes choose the
// reader behaviour; the reference decoder is the oracle inside the target.
func FuzzC09Stream(f *testing.F) {
	f.Add([]byte{0, 0x80})
	f.Add([]byte{1, 0xc0, 0x80, 0x00, 0x41})
	f.Add([]byte{2, 0x40, 0x05, 1, 2, 3, 4, 5, 0x83, 'a', 'b', 'c'})
	f.Add([]byte{3, 0xff, 0xff, 0xff, 0xff})
	f.Fuzz(func(t *testing.T, data []byte) {
		if len(data) < 1 {
			return
		}
		b := data[0]
		c := fcase{Raw: append([]byte{}, data[1:]...), Trunc: -1}
		switch b % 4 {
		case 0:
			c.Reader = reader{Kind: "plain"}
		case 1:
			c.Reader = reader{Kind: "frag", Sizes: []int{1 + int(b>>4)}}
		case 2:
			c.Reader = reader{Kind: "frag", Sizes: []int{1, 3}, Zeros: []int{int(b>>6) & 3, 0, 1}, DataEOF: b&4 != 0}
		default:
			c.Reader = reader{Kind: "frag", DataEOF: true}
		}
		if err := vstat.Safely(func() error { return runFraming(t, c) }); err != nil {
			t.Fatalf("%s", uFraming.Fail(c, "%v", err))
		}
	})
}

func FuzzC09Rapid(f *testing.F) {
	f.Fuzz(rapid.MakeFuzz(func(rt *rapid.T) {
		c := genCase(rt)
		if err := vstat.Safely(func() error { return runFraming(nil, c) }); err != nil {
			rt.Fatalf("%s", uFraming.Fail(c, "%v", err))
		}
	}))
}
