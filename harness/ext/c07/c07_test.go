// C07 No IP address survives the log scrubber.
package c07

import (
	"bytes"
	"errors"
	"fmt"
	"net"
	"net/netip"
	"regexp"
	"strings"
	"sync"
	"testing"

	"git.torproject.org/pluggable-transports/snowflake.git/v2/common/event"
	"git.torproject.org/pluggable-transports/snowflake.git/v2/common/safelog"
	"pgregory.net/rapid"
	"verif.local/vstat"
	"verif.local/vstat/gen"
)

// ---------------------------------------------------------------------------
// case: lines of text with known embedded addresses, and a write splitting

type line struct {
	Text  string   `json:"text"`  // without terminator
	Hosts []string `json:"hosts"` // bare IP literals embedded in Text
	Forms []string `json:"forms,omitempty"`
	Term  string   `json:"term"` // "\n", "\r\n" or "" (unterminated: last line only)
}

type scase struct {
	Lines  []line `json:"lines"`
	Splits []int  `json:"splits,omitempty"` // cyclic Write sizes; empty = one write per line
	// Reuse: every chunk is copied to the start of one scratch buffer before it is written and the
	// scratch is overwritten afterwards, as io.Copy, bufio.Writer and os/exec do (a Writer must not
	// retain the slice it is given)
	Reuse bool `json:"reuse,omitempty"`
}

// Filler words avoid [0-9a-fA-F.:] so that nothing but an address looks like one.
var words = []string{"just", "now", "kill", "snow", "with", "long", "up", "unto", "pion", "join", "on", "host", "turn", "stun", "WS", "proxy", "url", "only", "non", "poll", "timing", "out", "sink", "gw", "OR", "port", "is", "not", "ok", "try", "visit", "GOT"}

// Separators the statement names: ASCII whitespace and ASCII punctuation other
// than ':' (and other than '_', which is a word character in the delimiter class).
var seps = []string{" ", " ", " ", "\t", ",", ", ", ";", "; ", "=", "(", ")", "\"", "'", "/", "-", " - ", "<", ">", "{", "}", "|", "!", "?", "#", "&", "*", "+", "@", "~", "`", "^", "$", "%", "\\"}
var rightOnly = []string{": ", ". ", ":\t"}

// Real log templates of the four binaries (timestamps are added by package log and
// are not addresses; they are left out so that the survivor scan has no digits of
// its own to worry about).
var templates = []string{
	"dial tcp %s: connect: connection refused",
	"read udp %s->%s: i/o timeout",
	"Error processing proxy IP: address %s: missing port in address",
	"WebRTC DataChannel.OnOpen remote %s",
	"new client from %s, relay %s",
	"error dialing relay: %s = dial tcp %s: i/o timeout",
	"http: TLS handshake error from %s: EOF",
	"listening on %s",
	"accepted connection (%s)",
	"ICE candidate host %s typ host",
	"Get \"https://%s/proxy\": dial tcp %s: connect: network is unreachable",
	"%s",
	"%s %s",
	"%s,%s,%s",
}

func genLine(t *rapid.T) line {
	var l line
	var b strings.Builder
	add := func(a gen.Rendered) {
		b.WriteString(a.Text)
		l.Hosts = append(l.Hosts, a.Host)
		l.Forms = append(l.Forms, a.Form)
	}
	if rapid.IntRange(0, 3).Draw(t, "template") == 0 {
		tpl := rapid.SampledFrom(templates).Draw(t, "tpl")
		parts := strings.Split(tpl, "%s")
		for i, p := range parts {
			b.WriteString(p)
			if i < len(parts)-1 {
				add(gen.Address(t))
			}
		}
	} else {
		n := rapid.IntRange(1, 8).Draw(t, "nparts")
		prevAddr := false
		for i := 0; i < n; i++ {
			isAddr := rapid.IntRange(0, 2).Draw(t, "isaddr") != 0
			if i > 0 {
				if prevAddr && rapid.IntRange(0, 5).Draw(t, "rightsep") == 0 {
					b.WriteString(rapid.SampledFrom(rightOnly).Draw(t, "rsep"))
				} else {
					b.WriteString(rapid.SampledFrom(seps).Draw(t, "sep"))
				}
			}
			if isAddr {
				add(gen.Address(t))
			} else {
				b.WriteString(rapid.SampledFrom(words).Draw(t, "word"))
			}
			prevAddr = isAddr
		}
	}
	l.Text = b.String()
	l.Term = "\n"
	if rapid.IntRange(0, 7).Draw(t, "crlf") == 0 {
		l.Term = "\r\n"
	}
	return l
}

func genCase(t *rapid.T) scase {
	var c scase
	n := rapid.IntRange(1, 5).Draw(t, "nlines")
	for i := 0; i < n; i++ {
		c.Lines = append(c.Lines, genLine(t))
	}
	if rapid.IntRange(0, 3).Draw(t, "unterminated") == 0 {
		c.Lines[n-1].Term = ""
	}
	if rapid.IntRange(0, 3).Draw(t, "split") != 0 {
		c.Splits = rapid.SliceOfN(rapid.OneOf(rapid.IntRange(1, 3), rapid.IntRange(1, 40), rapid.IntRange(1, 400)), 1, 6).Draw(t, "splits")
		c.Reuse = rapid.Bool().Draw(t, "reusebuffer")
	}
	return c
}

// ---------------------------------------------------------------------------
// oracle 1: no survivor

func isAddrByte(c byte) bool {
	return c >= '0' && c <= '9' || c >= 'a' && c <= 'f' || c >= 'A' && c <= 'F' || c == ':' || c == '.'
}

// survivors returns the maximal runs over [0-9A-Fa-f:.] of out (placeholders
// removed first) that contain both a hex digit and a ':' or '.', i.e. a piece of
// an address. Runs made of hex digits only (a zone suffix, letters of a word) or of
// punctuation only are not addresses. The generator keeps hex letters of filler
// text away from ':' and '.'.
func survivors(out string) []string {
	s := strings.ReplaceAll(out, "[scrubbed]", "\x00")
	// A bracketed address is always followed by its real port: "[ip6]:port". When the
	// scrubber replaces only the part inside the brackets, "]:port" remains; a port is
	// not an address.
	s = portRemnant.ReplaceAllString(s, "\x00]")
	var res []string
	i := 0
	for i < len(s) {
		if !isAddrByte(s[i]) {
			i++
			continue
		}
		j := i
		for j < len(s) && isAddrByte(s[j]) {
			j++
		}
		run := s[i:j]
		hasSep := strings.ContainsAny(run, ":.")
		hasHex := strings.Trim(run, ":.") != ""
		leak := hasSep && hasHex
		if leak {
			res = append(res, run)
		}
		i = j
	}
	return res
}

var portRemnant = regexp.MustCompile(`\x00(%[a-z]+)?\]:\d{1,5}`)

func checkNoSurvivor(what, in, out string, hosts []string) error {
	for _, h := range hosts {
		if len(h) >= 3 && strings.Contains(out, h) {
			return fmt.Errorf("%s: address %q survives scrubbing\n in:  %q\n out: %q", what, h, in, out)
		}
	}
	if sv := survivors(out); len(sv) > 0 {
		return fmt.Errorf("%s: address fragment(s) %q survive scrubbing\n in:  %q\n out: %q", what, sv, in, out)
	}
	return nil
}

// ---------------------------------------------------------------------------
// sink

type sink struct {
	mu     sync.Mutex
	writes [][]byte
}

func (s *sink) Write(p []byte) (int, error) {
	s.mu.Lock()
	defer s.mu.Unlock()
	s.writes = append(s.writes, append([]byte{}, p...))
	return len(p), nil
}

func (s *sink) all() string {
	var b bytes.Buffer
	for _, w := range s.writes {
		b.Write(w)
	}
	return b.String()
}

func runScrub(_ *testing.T, c scase) error {
	var stream strings.Builder
	var allHosts []string
	var completeHosts []string
	for i, l := range c.Lines {
		if l.Term == "" && i != len(c.Lines)-1 {
			return fmt.Errorf("bad case: unterminated line in the middle")
		}
		stream.WriteString(l.Text + l.Term)
		allHosts = append(allHosts, l.Hosts...)
		if l.Term != "" {
			completeHosts = append(completeHosts, l.Hosts...)
		}
		// Scrub on the bare message (no newline): what the event strings do.
		if err := checkNoSurvivor("Scrub(text without newline)", l.Text, string(safelog.Scrub([]byte(l.Text))), l.Hosts); err != nil {
			return err
		}
		if err := checkNoSurvivor("Scrub(line)", l.Text+l.Term, string(safelog.Scrub([]byte(l.Text+l.Term))), l.Hosts); err != nil {
			return err
		}
	}
	whole := stream.String()
	if err := checkNoSurvivor("Scrub(all lines at once)", whole, string(safelog.Scrub([]byte(whole))), allHosts); err != nil {
		return err
	}

	// reference run: one Write per line
	ref := &sink{}
	ls := &safelog.LogScrubber{Output: ref}
	for _, l := range c.Lines {
		n, err := ls.Write([]byte(l.Text + l.Term))
		if err != nil || n != len(l.Text+l.Term) {
			return fmt.Errorf("Write returned (%d,%v) for %d bytes", n, err, len(l.Text+l.Term))
		}
	}
	// run under test: the generated splitting of the same byte stream
	got := &sink{}
	ls2 := &safelog.LogScrubber{Output: got}
	if len(c.Splits) == 0 {
		if _, err := ls2.Write([]byte(whole)); err != nil {
			return err
		}
	} else {
		rest := []byte(whole)
		scratch := make([]byte, 512)
		for k := 0; len(rest) > 0; k++ {
			n := c.Splits[k%len(c.Splits)]
			if n > len(rest) {
				n = len(rest)
			}
			chunk := rest[:n]
			if c.Reuse {
				chunk = scratch[:copy(scratch, rest[:n])]
			}
			if w, err := ls2.Write(chunk); err != nil || w != n {
				return fmt.Errorf("Write returned (%d,%v) for %d bytes", w, err, n)
			}
			if c.Reuse {
				for i := range scratch {
					scratch[i] = '#' // the caller reuses its buffer
				}
			}
			rest = rest[n:]
		}
	}
	for _, s := range []*sink{ref, got} {
		for _, w := range s.writes {
			if len(w) == 0 || w[len(w)-1] != '\n' {
				return fmt.Errorf("the sink received a write that is not a whole number of lines: %q (input %q, splits %v)", w, whole, c.Splits)
			}
		}
	}
	if ref.all() != got.all() {
		return fmt.Errorf("output depends on how the stream is split into writes\n input: %q\n splits: %v\n one write per line: %q\n split writes:        %q", whole, c.Splits, ref.all(), got.all())
	}
	if err := checkNoSurvivor("LogScrubber output", whole, got.all(), completeHosts); err != nil {
		return err
	}
	// only complete lines are emitted: the number of line terminators is preserved and the
	// unterminated tail is absent
	wantNL := strings.Count(whole, "\n")
	if strings.Count(got.all(), "\n") != wantNL {
		return fmt.Errorf("emitted %d newlines for an input with %d", strings.Count(got.all(), "\n"), wantNL)
	}
	last := c.Lines[len(c.Lines)-1]
	if last.Term == "" && last.Text != "" {
		// words of the tail must not have been emitted (tail words are checked via a marker)
		if marker := tailMarker(last.Text); marker != "" && strings.HasSuffix(strings.TrimRight(got.all(), "\r\n"), marker) && !endsWithMarkerBefore(c, marker) {
			return fmt.Errorf("unterminated tail %q was emitted: %q", last.Text, got.all())
		}
	}
	return nil
}

func tailMarker(s string) string {
	f := strings.Fields(s)
	if len(f) == 0 {
		return ""
	}
	m := f[len(f)-1]
	for _, r := range m {
		if !(r >= 'g' && r <= 'z' || r >= 'G' && r <= 'Z') {
			return ""
		}
	}
	return m
}

func endsWithMarkerBefore(c scase, marker string) bool {
	if len(c.Lines) < 2 {
		return false
	}
	return strings.HasSuffix(c.Lines[len(c.Lines)-2].Text, marker)
}

func classify(c scase) (bool, []string) {
	labels := []string{}
	multi := false
	total := 0
	forms := map[string]bool{}
	for _, l := range c.Lines {
		total += len(l.Hosts)
		if len(l.Hosts) >= 2 {
			multi = true
		}
		for _, f := range l.Forms {
			forms[f] = true
		}
	}
	for f := range forms {
		labels = append(labels, "form="+f)
	}
	if multi {
		labels = append(labels, ">=2 addresses on a line")
	}
	cutInside := false
	if len(c.Splits) > 0 {
		labels = append(labels, "split writes")
		// does a write boundary fall inside an address?
		var stream strings.Builder
		for _, l := range c.Lines {
			stream.WriteString(l.Text + l.Term)
		}
		s := stream.String()
		pos := 0
		for k := 0; pos < len(s); k++ {
			pos += c.Splits[k%len(c.Splits)]
			if pos > 0 && pos < len(s) && isAddrByte(s[pos-1]) && isAddrByte(s[pos]) {
				cutInside = true
				break
			}
		}
		if cutInside {
			labels = append(labels, "write boundary inside an address")
		}
	} else if len(c.Lines) > 1 {
		labels = append(labels, "many lines in one write")
	}
	if c.Lines[len(c.Lines)-1].Term == "" {
		labels = append(labels, "unterminated tail")
	}
	if total == 0 {
		labels = append(labels, "no address")
	}
	return multi || cutInside, labels
}

var uScrub = vstat.New("C07", "c07_scrub")

func init() { vstat.Register(uScrub, runScrub) }

func TestVerifC07Scrub(t *testing.T) {
	defer uScrub.Flush()
	rapid.Check(t, func(rt *rapid.T) {
		c := genCase(rt)
		nt, labels := classify(c)
		vstat.Run(uScrub, t, rt, c, nt, labels, runScrub)
	})
}

// ---------------------------------------------------------------------------
// event strings go through Scrub too

type evCase struct {
	Line line `json:"line"`
}

func runEvent(_ *testing.T, c evCase) error {
	e := errors.New(c.Line.Text)
	outs := map[string]string{
		"EventOnOfferCreated":              event.EventOnOfferCreated{Error: e}.String(),
		"EventOnBrokerRendezvous":          event.EventOnBrokerRendezvous{Error: e}.String(),
		"EventOnSnowflakeConnectionFailed": event.EventOnSnowflakeConnectionFailed{Error: e}.String(),
	}
	for name, out := range outs {
		if err := checkNoSurvivor(name+".String()", c.Line.Text, out, c.Line.Hosts); err != nil {
			return err
		}
	}
	return nil
}

var uEvent = vstat.New("C07", "c07_event")

func init() { vstat.Register(uEvent, runEvent) }

func TestVerifC07Event(t *testing.T) {
	defer uEvent.Flush()
	rapid.Check(t, func(rt *rapid.T) {
		c := evCase{Line: genLine(rt)}
		vstat.Run(uEvent, t, rt, c, len(c.Line.Hosts) >= 2, nil, runEvent)
	})
}

// ---------------------------------------------------------------------------
// concurrent writers, whole lines each: output is a permutation of scrubbed lines

type concCase struct {
	Writers [][]line `json:"writers"`
}

func runConcurrent(_ *testing.T, c concCase) error {
	out := &sink{}
	ls := &safelog.LogScrubber{Output: out}
	want := map[string]int{}
	var hosts []string
	var wg sync.WaitGroup
	for _, w := range c.Writers {
		for _, l := range w {
			want[string(safelog.Scrub([]byte(l.Text+"\n")))]++
			hosts = append(hosts, l.Hosts...)
		}
		wg.Add(1)
		go func(w []line) {
			defer wg.Done()
			for _, l := range w {
				ls.Write([]byte(l.Text + "\n"))
			}
		}(w)
	}
	wg.Wait()
	got := map[string]int{}
	for _, l := range strings.SplitAfter(out.all(), "\n") {
		if l != "" {
			got[l]++
		}
	}
	for k, n := range want {
		if got[k] != n {
			return fmt.Errorf("concurrent whole-line writers: line %q expected %d times, seen %d times; output %q", k, n, got[k], out.all())
		}
	}
	for k, n := range got {
		if want[k] != n {
			return fmt.Errorf("concurrent whole-line writers: unexpected output line %q (%d times)", k, n)
		}
	}
	return checkNoSurvivor("concurrent output", "", out.all(), hosts)
}

var uConc = vstat.New("C07", "c07_concurrent")

func init() { vstat.Register(uConc, runConcurrent) }

func TestVerifC07Concurrent(t *testing.T) {
	defer uConc.Flush()
	rapid.Check(t, func(rt *rapid.T) {
		var c concCase
		nw := rapid.IntRange(2, 6).Draw(rt, "writers")
		for i := 0; i < nw; i++ {
			var w []line
			nl := rapid.IntRange(1, 12).Draw(rt, "lines")
			for j := 0; j < nl; j++ {
				l := genLine(rt)
				l.Text = strings.ReplaceAll(l.Text, "\n", " ")
				w = append(w, l)
			}
			c.Writers = append(c.Writers, w)
		}
		vstat.Run(uConc, t, rt, c, true, []string{fmt.Sprintf("writers=%d", nw)}, runConcurrent)
	})
}

func TestVerifReplay(t *testing.T) { vstat.RunReplays(t) }

// native fuzzing (thorough tier) over the structured generator
func FuzzC07Rapid(f *testing.F) {
	f.Fuzz(rapid.MakeFuzz(func(rt *rapid.T) {
		c := genCase(rt)
		if err := vstat.Safely(func() error { return runScrub(nil, c) }); err != nil {
			rt.Fatalf("%s", uScrub.Fail(c, "%v", err))
		}
	}))
}

// byte-level: bytes choose split points; text is built from the bytes over a small alphabet
// of address pieces and delimiters, embedded addresses are found with Go's own parsers
var fuzzPort = regexp.MustCompile(`^:\d{1,5}$`)

func FuzzC07Bytes(f *testing.F) {
	f.Add([]byte("1.2.3.4 5.6.7.8\n"), uint8(3))
	f.Add([]byte("[::1]:80,[2001:db8::1]\n9.9.9.9"), uint8(1))
	f.Fuzz(func(t *testing.T, data []byte, split uint8) {
		// keep to the filler alphabet + address characters so that the survivor scan is exact
		var b []byte
		for _, ch := range data {
			switch {
			case ch >= '0' && ch <= '9', ch == '.', ch == ':', ch == '[', ch == ']', ch == ' ', ch == ',', ch == '\n', ch == ';', ch == '=', ch == '(', ch == ')':
				b = append(b, ch)
			case ch >= 'a' && ch <= 'f', ch >= 'A' && ch <= 'F':
				b = append(b, ch)
			default:
				b = append(b, "ghjkmnpq rstuvwxyz"[int(ch)%18])
			}
		}
		text := string(b)
		// the embedded addresses: maximal tokens between delimiters that parse as an address
		var hosts []string
		for _, tok := range strings.FieldsFunc(text, func(r rune) bool { return strings.ContainsRune(" ,\n;=()", r) }) {
			h := tok
			if hp, _, err := net.SplitHostPort(tok); err == nil {
				h = hp
			}
			h = strings.TrimSuffix(strings.TrimPrefix(h, "["), "]")
			if a, err := netip.ParseAddr(h); err == nil && a.Zone() == "" && (strings.Contains(h, ".") || strings.Contains(h, ":")) {
				// only forms the generator also produces (no leading zeros in IPv4 etc. is implied by ParseAddr)
				if tok == h || tok == "["+h+"]" || fuzzPort.MatchString(strings.TrimPrefix(tok, h)) && !strings.Contains(h, ":") || fuzzPort.MatchString(strings.TrimPrefix(tok, "["+h+"]")) {
					hosts = append(hosts, h)
				}
			}
		}
		if len(hosts) == 0 {
			return
		}
		out := string(safelog.Scrub([]byte(text)))
		outTok := map[string]bool{}
		for _, tok := range strings.FieldsFunc(out, func(r rune) bool { return strings.ContainsRune(" ,\n;=()", r) }) {
			outTok[tok] = true
			if hp, port, err := net.SplitHostPort(tok); err == nil && fuzzPort.MatchString(":"+port) {
				outTok[hp] = true
			}
			if strings.HasPrefix(tok, "[") && strings.HasSuffix(tok, "]") {
				outTok[tok[1:len(tok)-1]] = true
			}
		}
		for _, h := range hosts {
			if len(h) >= 2 && outTok[h] {
				// the token must really be delimited on both sides in the input
				c := scase{Lines: []line{{Text: text, Hosts: hosts, Term: ""}}}
				t.Fatalf("%s", uScrub.Fail(c, "address %q survives scrubbing\n in:  %q\n out: %q", h, text, out))
			}
		}
		_ = split
	})
}
