// C11 (a) AMP path codec, (c) AMP cache URL construction. Parts (b) endpoint
// equivalence and (d) fronting/limits are in-package (broker, client/lib).
package c11

import (
	"bytes"
	"crypto/sha256"
	"encoding/base32"
	"encoding/base64"
	"fmt"
	"net/url"
	"strings"
	"testing"

	"git.torproject.org/pluggable-transports/snowflake.git/v2/common/amp"
	"golang.org/x/net/idna"
	"pgregory.net/rapid"
	"verif.local/vstat"
)

// ---------------------------------------------------------------------------
// (a) path codec

type pathCase struct {
	Data    []byte `json:"data"`
	Padding string `json:"padding"` // cache-breaking padding: any bytes, slashes included
	Bad     string `json:"bad,omitempty"`
}

func runPath(_ *testing.T, c pathCase) error {
	if c.Bad != "" {
		if got, err := amp.DecodePath(c.Bad); err == nil {
			// acceptable only if it is a well-formed path
			i := strings.LastIndexByte(c.Bad, '/')
			if len(c.Bad) == 0 || c.Bad[0] != '0' || i < 1 {
				return fmt.Errorf("malformed path %q decoded to %q without error", c.Bad, got)
			}
			if _, e := base64.RawURLEncoding.DecodeString(c.Bad[i+1:]); e != nil {
				return fmt.Errorf("path %q with bad base64 decoded to %q without error", c.Bad, got)
			}
		}
		return nil
	}
	p := "0" + c.Padding + "/" + base64.RawURLEncoding.EncodeToString(c.Data)
	got, err := amp.DecodePath(p)
	if err != nil || !bytes.Equal(got, c.Data) {
		return fmt.Errorf("DecodePath(%q) = (%x,%v), want %x", p, got, err, c.Data)
	}
	enc := amp.EncodePath(c.Data)
	got, err = amp.DecodePath(enc)
	if err != nil || !bytes.Equal(got, c.Data) {
		return fmt.Errorf("DecodePath(EncodePath(%x)) = (%x,%v) via %q", c.Data, got, err, enc)
	}
	if len(enc) == 0 || enc[0] != '0' || strings.Count(enc, "/") != 1 {
		return fmt.Errorf("EncodePath output %q is not '0' + padding + '/' + data", enc)
	}
	// usable as one URL path suffix: survives URL resolution and parsing unchanged
	base, _ := url.Parse("https://broker.example/")
	u := base.ResolveReference(&url.URL{Path: "amp/client/" + enc})
	back, err := url.Parse(u.String())
	if err != nil || strings.TrimPrefix(back.Path, "/amp/client/") != enc {
		return fmt.Errorf("EncodePath output %q does not survive a URL round trip (%q)", enc, u.String())
	}
	return nil
}

var uPath = vstat.New("C11", "c11_path")

func init() { vstat.Register(uPath, runPath) }

func TestVerifC11Path(t *testing.T) {
	defer uPath.Flush()
	rapid.Check(t, func(rt *rapid.T) {
		var c pathCase
		if rapid.IntRange(0, 4).Draw(rt, "bad") == 0 {
			c.Bad = rapid.OneOf(
				rapid.SampledFrom([]string{"", "0", "1/AAAA", "/AAAA", "0AAAA", "0/!!!!", "0/AAA=", "0x/y/AA A", "0/AAAA/", "00", "0//", "0/+/+", "0/AA+A", "0/QQ==", "\x00/AAAA", "O/AAAA"}),
				rapid.StringN(0, 12, -1),
			).Draw(rt, "badpath")
			if c.Bad == "" {
				c.Bad = "1"
			}
			vstat.Run(uPath, t, rt, c, true, []string{"malformed path"}, runPath)
			return
		}
		c.Data = rapid.SliceOfN(rapid.Byte(), 0, 300).Draw(rt, "data")
		if c.Data == nil {
			c.Data = []byte{}
		}
		c.Padding = rapid.OneOf(rapid.SampledFrom([]string{"", "/", "//", "abc/def", "0/0", "AAAAAAAAAAAA", "a/b/c/"}), rapid.StringMatching(`[A-Za-z0-9_/-]{0,20}`), rapid.StringN(0, 10, -1)).Draw(rt, "padding")
		vstat.Run(uPath, t, rt, c, strings.Contains(c.Padding, "/") || len(c.Data)%3 != 0, nil, runPath)
	})
}

// ---------------------------------------------------------------------------
// (c) cache URL: reference implementation of the AMP "combined algorithm"

var b32 = base32.NewEncoding("abcdefghijklmnopqrstuvwxyz234567").WithPadding(base32.NoPadding)

func refPrefix(domain string) (prefix string, fallback bool) {
	// basic algorithm, from the text of the AMP cache URL specification
	u, err := idna.ToUnicode(domain) // 1. punycode-decode
	if err == nil {
		var b strings.Builder
		for _, r := range u { // 2. "-" -> "--", 3. "." -> "-" (single pass is equivalent)
			switch r {
			case '-':
				b.WriteString("--")
			case '.':
				b.WriteString("-")
			default:
				b.WriteRune(r)
			}
		}
		p := b.String()
		if len(p) >= 4 && p[2] == '-' && p[3] == '-' { // 4. hyphens at positions 3 and 4
			p = "0-" + p + "-0"
		}
		a, err := idna.ToASCII(p) // 5. punycode-encode
		if err == nil && len(a) <= 63 {
			return a, false
		}
	}
	h := sha256.Sum256([]byte(domain))
	return b32.EncodeToString(h[:]), true
}

type urlCase struct {
	Pub   string `json:"pub"`
	Cache string `json:"cache"`
	CT    string `json:"ct"`
}

func runCache(_ *testing.T, c urlCase) error {
	pub, err1 := url.Parse(c.Pub)
	cache, err2 := url.Parse(c.Cache)
	if err1 != nil || err2 != nil {
		return nil // not URLs: nothing to say
	}
	got, err := amp.CacheURL(pub, cache, c.CT)
	mustFail := (pub.Scheme != "http" && pub.Scheme != "https") || pub.User != nil || pub.Hostname() == "" || c.CT == "" ||
		cache.RawQuery != "" || cache.Fragment != "" ||
		(pub.Port() != "" && !((pub.Scheme == "http" && pub.Port() == "80") || (pub.Scheme == "https" && pub.Port() == "443")))
	if mustFail {
		if err == nil {
			return fmt.Errorf("CacheURL(%q, %q, %q) = %q, expected an error", c.Pub, c.Cache, c.CT, got)
		}
		return nil
	}
	if err != nil {
		return fmt.Errorf("CacheURL(%q, %q, %q) failed: %v", c.Pub, c.Cache, c.CT, err)
	}
	prefix, _ := refPrefix(pub.Hostname())
	if strings.Contains(prefix, ".") || len(prefix) > 63 || prefix == "" {
		return fmt.Errorf("harness: reference prefix %q invalid", prefix)
	}
	wantHost := prefix + "." + cache.Hostname()
	if cache.Port() != "" {
		wantHost += ":" + cache.Port()
	}
	if got.Host != wantHost {
		return fmt.Errorf("CacheURL(%q, %q): host %q, the AMP specification prescribes %q", c.Pub, c.Cache, got.Host, wantHost)
	}
	gotLabel := strings.SplitN(got.Host, "."+cache.Hostname(), 2)[0]
	if strings.Contains(gotLabel, ".") || len(gotLabel) > 63 {
		return fmt.Errorf("domain prefix %q is not a single label of at most 63 bytes", gotLabel)
	}
	wantPath := strings.TrimSuffix(cache.EscapedPath(), "/") + "/" + url.PathEscape(c.CT)
	if pub.Scheme == "https" {
		wantPath += "/s"
	}
	wantPath += "/" + pub.Hostname() + pub.EscapedPath()
	// The comparison is made on the string form parsed back, because that is what the
	// client requests (a URL struct with a relative path and a host prints with the
	// separating slash).
	back, err := url.Parse(got.String())
	wantDecoded, _ := url.PathUnescape(wantPath)
	if err != nil || back.Host != wantHost || back.Path != wantDecoded || back.RawQuery != pub.RawQuery {
		return fmt.Errorf("CacheURL(%q, %q).String() = %q does not parse back to host %q path %q", c.Pub, c.Cache, got.String(), wantHost, wantPath)
	}
	return nil
}

var labelsPool = []string{"ab-", "example", "snowflake-broker", "torproject", "net", "com", "a", "ab", "abc", "ab--cd", "x--y", "xn--bcher-kva", "bücher", "例え", "www", "a-b", "1", "123", "0", "-a", "a-", strings.Repeat("a", 63), strings.Repeat("b", 31), strings.Repeat("c", 20), "xn--a", "Example", "ÉCOLE"}

func genDomain(t *rapid.T) string {
	n := rapid.IntRange(1, 5).Draw(t, "nlabels")
	var ls []string
	for i := 0; i < n; i++ {
		ls = append(ls, rapid.SampledFrom(labelsPool).Draw(t, "label"))
	}
	return strings.Join(ls, ".")
}

var segs = []string{"a", "amp", "client", "x-y_z", "%41", "b.c", "~u", "0AAAA", "AbCd-_12"}

func genCleanPath(t *rapid.T) string {
	n := rapid.IntRange(0, 4).Draw(t, "nsegs")
	p := ""
	for i := 0; i < n; i++ {
		p += "/" + rapid.SampledFrom(segs).Draw(t, "seg")
	}
	if n > 0 && rapid.Bool().Draw(t, "trailing") {
		p += "/"
	}
	if n == 0 && rapid.Bool().Draw(t, "root") {
		p = "/"
	}
	return p
}

func genURLCase(t *rapid.T) (urlCase, []string) {
	var labels []string
	dom := genDomain(t)
	scheme := rapid.SampledFrom([]string{"https", "https", "http"}).Draw(t, "scheme")
	pub := scheme + "://" + dom
	bad := rapid.IntRange(0, 9).Draw(t, "errclass")
	switch bad {
	case 0:
		pub = rapid.SampledFrom([]string{"ftp", "ws", "", "HTTPS"}).Draw(t, "badscheme") + "://" + dom
		labels = append(labels, "bad scheme")
	case 1:
		pub = scheme + "://user:pw@" + dom
		labels = append(labels, "userinfo")
	case 2:
		pub += ":" + rapid.SampledFrom([]string{"80", "443", "8080", "0"}).Draw(t, "port")
		labels = append(labels, "port")
	}
	// the client requests brokerURL.ResolveReference("amp/client/" + EncodePath(poll)): the path
	// never ends in a slash
	pub += strings.TrimSuffix(genCleanPath(t), "/") + "/amp/client/0" + rapid.StringMatching(`[A-Za-z0-9_-]{0,12}`).Draw(t, "pad") + "/" + rapid.StringMatching(`[A-Za-z0-9_-]{1,40}`).Draw(t, "data")
	if rapid.IntRange(0, 2).Draw(t, "query") == 0 {
		pub += "?" + rapid.SampledFrom([]string{"a=1", "x=%2F&y=z", "q"}).Draw(t, "q")
	}
	cache := rapid.SampledFrom([]string{"https://cdn.ampproject.org", "https://cdn.ampproject.org/", "https://amp.cache.example/amp/cache-pfx", "https://amp.cache.example/a/b/", "http://cache.example:8443", "https://user@cdn.ampproject.org/"}).Draw(t, "cache")
	if bad == 3 {
		cache += rapid.SampledFrom([]string{"?x=1", "#frag"}).Draw(t, "cachejunk")
		labels = append(labels, "cache with query/fragment")
	}
	ct := "c"
	if bad == 4 {
		ct = rapid.SampledFrom([]string{"", "i", "c/d"}).Draw(t, "ct")
	}
	if _, fb := refPrefix(dom); fb {
		labels = append(labels, "fallback prefix")
	}
	if u, err := idna.ToUnicode(dom); err == nil {
		p := strings.ReplaceAll(strings.ReplaceAll(u, "-", "--"), ".", "-")
		if len(p) >= 4 && p[2] == '-' && p[3] == '-' {
			labels = append(labels, "hyphens at 3-4")
		}
	}
	return urlCase{Pub: pub, Cache: cache, CT: ct}, labels
}

var uCache = vstat.New("C11", "c11_cacheurl")

func init() { vstat.Register(uCache, runCache) }

func TestVerifC11CacheURL(t *testing.T) {
	defer uCache.Flush()
	rapid.Check(t, func(rt *rapid.T) {
		c, labels := genURLCase(rt)
		vstat.Run(uCache, t, rt, c, len(labels) > 0, labels, runCache)
	})
}

func TestVerifReplay(t *testing.T) { vstat.RunReplays(t) }
