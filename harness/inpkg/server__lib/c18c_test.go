//go:build go1.25

// C18 / C20 (bounded ClientID -> address map under concurrency): every carrier handler calls Set and
// every new session calls Get, on different goroutines. With a small capacity the ring recycles its
// slots all the time. Oracle without the race detector: Get(X) yields an address that was stored for
// X at some time, or nothing - never an address that was only ever stored for another ClientID (each
// ClientID gets addresses from its own, disjoint set). Under -race (unit c20_ringmap) the detector
// judges the same workload.
package snowflake_server

import (
	"fmt"
	"net"
	"sync"
	"sync/atomic"
	"testing"

	"pgregory.net/rapid"
	"verif.local/vstat"
)

type ringConcCase struct {
	Cap     int `json:"cap"`
	IDs     int `json:"ids"`
	Setters int `json:"setters"`
	Getters int `json:"getters"`
	Ops     int `json:"ops"` // operations per goroutine
}

type ownedAddr struct {
	owner, n int
}

func (a ownedAddr) Network() string { return "verif" }
func (a ownedAddr) String() string  { return fmt.Sprintf("owner%d-%d", a.owner, a.n) }

func runRingConcurrent(_ *testing.T, c ringConcCase) error {
	m := newClientIDMap(c.Cap)
	var firstErr atomic.Value
	var wg sync.WaitGroup
	for s := 0; s < c.Setters; s++ {
		wg.Add(1)
		go func(s int) {
			defer wg.Done()
			for k := 0; k < c.Ops; k++ {
				id := (s*7 + k*13) % c.IDs
				m.Set(idOf(id), ownedAddr{owner: id, n: k % 3})
			}
		}(s)
	}
	for g := 0; g < c.Getters; g++ {
		wg.Add(1)
		go func(g int) {
			defer wg.Done()
			for k := 0; k < c.Ops; k++ {
				id := (g*5 + k*11) % c.IDs
				var a net.Addr
				var ok bool
				func() {
					defer func() {
						if r := recover(); r != nil {
							firstErr.CompareAndSwap(nil, fmt.Sprintf("Get panicked: %v", r))
						}
					}()
					a, ok = m.Get(idOf(id))
				}()
				if !ok {
					continue
				}
				oa, isOwned := a.(ownedAddr)
				if !isOwned || oa.owner != id {
					firstErr.CompareAndSwap(nil, fmt.Sprintf("Get for ClientID #%d returned %v, an address that was only ever stored for another ClientID (capacity %d, %d ids, %d setters, %d getters)", id, a, c.Cap, c.IDs, c.Setters, c.Getters))
					return
				}
			}
		}(g)
	}
	wg.Wait()
	if e := firstErr.Load(); e != nil {
		return fmt.Errorf("%s", e.(string))
	}
	return nil
}

var uRingConc = vstat.New("C18", "c18_ringmap_concurrent")

func init() {
	vstat.Register(uRingConc, func(t *testing.T, c ringConcCase) error {
		for i := 0; i < 20; i++ { // schedule-dependent: a replay tries the workload several times
			if err := runRingConcurrent(t, c); err != nil {
				return err
			}
		}
		return nil
	})
}

func TestVerifC18RingMapConcurrent(t *testing.T) {
	defer uRingConc.Flush()
	rapid.Check(t, func(rt *rapid.T) {
		c := ringConcCase{
			Cap:     rapid.SampledFrom([]int{1, 2, 3, 8, 64}).Draw(rt, "cap"),
			Setters: rapid.IntRange(1, 6).Draw(rt, "setters"),
			Getters: rapid.IntRange(1, 6).Draw(rt, "getters"),
			Ops:     rapid.SampledFrom([]int{50, 1000, 20000}).Draw(rt, "ops"),
		}
		c.IDs = rapid.IntRange(2, 3*c.Cap+4).Draw(rt, "ids")
		vstat.Run(uRingConc, t, rt, c, c.IDs > c.Cap, []string{fmt.Sprintf("capacity=%d", c.Cap)}, runRingConcurrent)
	})
}
