//go:build go1.25

// C18 (a) client_ip sanitiser, (b) bounded ClientID -> address ring map.
package snowflake_server

import (
	"fmt"
	"io"
	"log"
	"net"
	"net/netip"
	"strings"
	"testing"

	"git.torproject.org/pluggable-transports/snowflake.git/v2/common/turbotunnel"
	"pgregory.net/rapid"
	"verif.local/vstat"
	"verif.local/vstat/gen"
)

func init() { log.SetOutput(io.Discard) }

type ipCase struct {
	IP string `json:"ip"`
}

func runSanitise(_ *testing.T, c ipCase) error {
	got := clientAddr(c.IP).String()
	want := ""
	a, err := netip.ParseAddr(c.IP)
	if err == nil && a.Zone() == "" && !a.IsUnspecified() && !(a.Is4In6() && a.Unmap().IsUnspecified()) {
		// canonical rendering with a stub port
		want = net.JoinHostPort(a.Unmap().String(), "1")
		if a.Is4In6() {
			want = net.JoinHostPort(a.Unmap().String(), "1")
		}
	}
	if got == want {
		return nil
	}
	if want != "" && got != "" {
		// both non-empty: accept any canonical rendering of the same address with port 1
		h, p, e := net.SplitHostPort(got)
		if e == nil && p == "1" {
			if g, e2 := netip.ParseAddr(h); e2 == nil && g.Unmap() == a.Unmap() {
				return nil
			}
		}
	}
	return fmt.Errorf("client_ip %q: bridge is told %q, expected %q (a valid, specified bare IP literal with stub port 1, else empty)", c.IP, got, want)
}

var uSan = vstat.New("C18", "c18_sanitise")

func init() { vstat.Register(uSan, runSanitise) }

func TestVerifC18Sanitise(t *testing.T) {
	defer uSan.Flush()
	rapid.Check(t, func(rt *rapid.T) {
		var ip string
		switch rapid.IntRange(0, 7).Draw(rt, "class") {
		case 0:
			ip = gen.IPv4(rt)
		case 1:
			ip = gen.IPv6(rt)
		case 2:
			ip = gen.Address(rt).Text // with ports, brackets, zones
		case 3:
			ip = rapid.SampledFrom([]string{"", " ", "0.0.0.0", "::", "::ffff:0.0.0.0", "0:0:0:0:0:0:0:0", "::0", "0.0.0.0:1", "[::]", "abc", "1.2.3.4.5", "[12::34]", "1.2.3", "256.1.1.1", "01.2.3.4", "1.2.3.4 ", " 1.2.3.4", "1.2.3.4\n", "::1%lo", "fe80::1%25eth0", "localhost", "1.2.3.4/24", "0x1.2.3.4", "1.2.3.4,5.6.7.8", strings.Repeat("1", 5000)}).Draw(rt, "special")
		case 4:
			ip = rapid.String().Draw(rt, "junk")
		case 5:
			ip = "::ffff:" + gen.IPv4(rt)
		default:
			ip = gen.IPv4(rt)
			if rapid.Bool().Draw(rt, "mutate") {
				b := []byte(ip)
				b[rapid.IntRange(0, len(b)-1).Draw(rt, "pos")] = rapid.SampledFrom([]byte{'.', ':', 'x', ' ', '0', '9'}).Draw(rt, "ch")
				ip = string(b)
			}
		}
		_, err := netip.ParseAddr(ip)
		vstat.Run(uSan, t, rt, ipCase{IP: ip}, err != nil || strings.Contains(ip, ":"), nil, runSanitise)
	})
}

// ---------------------------------------------------------------------------
// ring map

type rop struct {
	Set  bool `json:"set,omitempty"`
	ID   int  `json:"id"`
	Addr int  `json:"addr,omitempty"`
}

type ringCase struct {
	Cap int   `json:"cap"`
	Ops []rop `json:"ops"`
}

func idOf(i int) turbotunnel.ClientID {
	var id turbotunnel.ClientID
	if i == 0 {
		return id // the all-zero id
	}
	id[0], id[7] = byte(i), byte(i*7)
	return id
}

func runRing(_ *testing.T, c ringCase) error {
	m := newClientIDMap(c.Cap)
	type ent struct{ id, addr int }
	var recent []ent // the last Cap sets, oldest first
	for i, op := range c.Ops {
		if op.Set {
			m.Set(idOf(op.ID), ClientMapAddr(fmt.Sprint("addr-", op.Addr)))
			recent = append(recent, ent{op.ID, op.Addr})
			if len(recent) > c.Cap {
				recent = recent[len(recent)-c.Cap:]
			}
		}
		// Get for every id of the alphabet after every step
		for id := 0; id < 6; id++ {
			got, ok := m.Get(idOf(id))
			wantOK := false
			want := ""
			for _, e := range recent {
				if e.id == id {
					wantOK, want = true, fmt.Sprint("addr-", e.addr)
				}
			}
			if ok != wantOK || (ok && got.String() != want) {
				return fmt.Errorf("op #%d: Get(id %d) = (%v, %v), the last %d Set calls say (%q, %v)", i, id, got, ok, c.Cap, want, wantOK)
			}
		}
		if len(m.current) > c.Cap {
			return fmt.Errorf("op #%d: map remembers %d ids, capacity is %d", i, len(m.current), c.Cap)
		}
		if len(m.entries) != c.Cap {
			return fmt.Errorf("op #%d: backing store has %d slots, capacity is %d", i, len(m.entries), c.Cap)
		}
	}
	return nil
}

var uRing = vstat.New("C18", "c18_ringmap")

func init() { vstat.Register(uRing, runRing) }

func TestVerifC18RingMap(t *testing.T) {
	defer uRing.Flush()
	rapid.Check(t, func(rt *rapid.T) {
		c := ringCase{Cap: rapid.IntRange(0, 8).Draw(rt, "cap")}
		n := rapid.IntRange(1, 60).Draw(rt, "nops")
		sets := map[int]int{}
		nt := false
		for i := 0; i < n; i++ {
			op := rop{Set: rapid.IntRange(0, 3).Draw(rt, "set") != 0, ID: rapid.IntRange(0, 5).Draw(rt, "id"), Addr: rapid.IntRange(0, 99).Draw(rt, "addr")}
			if op.Set {
				sets[op.ID]++
				if sets[op.ID] >= 2 && len(sets) >= 2 {
					nt = true
				}
			}
			c.Ops = append(c.Ops, op)
		}
		vstat.Run(uRing, t, rt, c, nt && n > c.Cap, nil, runRing)
	})
	// the production capacity, spot-checked: 10240 + a few sets, oldest forgotten first
	m := newClientIDMap(clientIDAddrMapCapacity)
	for i := 0; i < clientIDAddrMapCapacity+3; i++ {
		var id turbotunnel.ClientID
		id[0], id[1], id[2] = byte(i), byte(i>>8), byte(i>>16)
		m.Set(id, ClientMapAddr(fmt.Sprint(i)))
	}
	for _, i := range []int{0, 1, 2, 3, clientIDAddrMapCapacity + 2} {
		var id turbotunnel.ClientID
		id[0], id[1], id[2] = byte(i), byte(i>>8), byte(i>>16)
		_, ok := m.Get(id)
		if want := i >= 3; ok != want {
			t.Fatalf("%s", uRing.Fail(ringCase{Cap: clientIDAddrMapCapacity}, "production capacity: id #%d present=%v, want %v", i, ok, want))
		}
	}
	if len(m.current) != clientIDAddrMapCapacity {
		t.Fatalf("%s", uRing.Fail(ringCase{Cap: clientIDAddrMapCapacity}, "production capacity: %d ids remembered", len(m.current)))
	}
}

func TestVerifReplay(t *testing.T) { vstat.RunReplays(t) }
