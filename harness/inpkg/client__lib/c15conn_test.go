//go:build go1.25

// C15 (e) the client connection as the application holds it (what Transport.Dial returns), over a
// scripted dialer: Close - early, after the data path has reported an error, twice - returns in
// bounded time, melts the peer collection (no further rendezvous), and closes every peer.
// The peers' data channels refuse every Send (a channel the remote side closed a moment ago), so
// the session underneath breaks as soon as the data path uses a peer: that is the state in which an
// application typically calls Close.
package snowflake_client

import (
	"errors"
	"fmt"
	"runtime"
	"strings"
	"sync"
	"testing"
	"time"

	"github.com/pion/webrtc/v3"
	"pgregory.net/rapid"
	"verif.local/vstat"
)

type connCase struct {
	Max        int      `json:"max"`
	Script     []string `json:"script"`   // cyclic results of the rendezvous: dead | fail | slow-dead | slow-fail
	WriteFirst bool     `json:"write"`    // the application writes until the connection reports an error (at most 6 s)
	CloseAtMs  int      `json:"close_ms"` // otherwise: Close this long after Dial
	Twice      bool     `json:"twice"`
	WaitPace   bool     `json:"waitpace"` // watch for rendezvous attempts for one full ReconnectTimeout after Close
}

// closeBound: Close hands the stream's FIN to the session (waiting at most its own 2 s for a session
// that cannot send), and may wait for one rendezvous attempt in flight (here <= 0.3 s). Anything beyond
// 15 s is "did not return". (Before fix D17 Close waited for the FIN without limit: with no proxy and a
// full send window that meant smux's 10-minute keep-alive time-out, rendezvous attempts continuing.)
const closeBound = 15 * time.Second

type connTongue struct {
	c       *connCase
	mu      sync.Mutex
	n       int
	catches []time.Time
	peers   []*WebRTCPeer
}

func (d *connTongue) GetMax() int { return d.c.Max }

func (d *connTongue) Catch() (*WebRTCPeer, error) {
	d.mu.Lock()
	kind := d.c.Script[d.n%len(d.c.Script)]
	d.n++
	d.mu.Unlock()
	if kind == "slow-dead" || kind == "slow-fail" {
		time.Sleep(300 * time.Millisecond)
	}
	d.mu.Lock()
	defer d.mu.Unlock()
	d.catches = append(d.catches, time.Now())
	if kind == "fail" || kind == "slow-fail" {
		return nil, errors.New("broker: no proxies available")
	}
	p := &WebRTCPeer{closed: make(chan struct{}), transport: &webrtc.DataChannel{}, bytesLogger: &bytesNullLogger{}}
	d.peers = append(d.peers, p)
	return p, nil
}

func runConn(_ *testing.T, c connCase) error {
	tongue := &connTongue{c: &c}
	// what Transport.Dial does
	snowflakes, err := NewPeers(tongue)
	if err != nil {
		return fmt.Errorf("harness: %v", err)
	}
	snowflakes.bytesLogger = &bytesNullLogger{}
	go connectLoop(snowflakes)
	pconn, sess, err := newSession(snowflakes)
	if err != nil {
		snowflakes.End()
		return fmt.Errorf("harness: newSession: %v", err)
	}
	stream, err := sess.OpenStream()
	if err != nil {
		snowflakes.End()
		return fmt.Errorf("harness: OpenStream: %v", err)
	}
	conn := &SnowflakeConn{Stream: stream, sess: sess, pconn: pconn, snowflakes: snowflakes}
	defer snowflakes.End() // whatever happens, the connect loop does not outlive the case
	state := "healthy"
	lastWriteErr := ""
	defer func() { _ = lastWriteErr }()
	if c.WriteFirst {
		start := time.Now()
		for time.Since(start) < 6*time.Second {
			// (without a deadline a Write blocks for good once the send window is full and no peer is there)
			conn.SetWriteDeadline(time.Now().Add(300 * time.Millisecond))
			if _, werr := conn.Write(make([]byte, 512)); werr != nil {
				if ne, ok := werr.(interface{ Timeout() bool }); ok && ne.Timeout() {
					state = "after write time-outs"
					continue
				}
				state = "after a write error"
				lastWriteErr = werr.Error()
				break
			}
			time.Sleep(20 * time.Millisecond)
		}
	} else {
		time.Sleep(time.Duration(c.CloseAtMs) * time.Millisecond)
	}
	ret := make(chan error, 1)
	go func() { ret <- conn.Close() }()
	select {
	case <-ret:
	case <-time.After(closeBound):
		buf := make([]byte, 1<<20)
		buf = buf[:runtime.Stack(buf, true)]
		var keep []string
		for _, g := range strings.Split(string(buf), "\n\n") {
			if strings.Contains(g, "SnowflakeConn).Close") || strings.Contains(g, "sendLoop") || strings.Contains(g, "dialLoop") {
				keep = append(keep, g)
			}
		}
		return fmt.Errorf("Close (%s %q, max %d, script %v) did not return within %v\n%s", state, lastWriteErr, c.Max, c.Script, closeBound, strings.Join(keep, "\n\n"))
	}
	closedAt := time.Now()
	select {
	case <-snowflakes.Melted():
	default:
		return fmt.Errorf("after Close (%s) the peer collection is not melted: the connect loop goes on making rendezvous attempts", state)
	}
	if c.Twice {
		ret2 := make(chan struct{})
		go func() {
			defer func() { recover(); close(ret2) }()
			conn.Close()
		}()
		select {
		case <-ret2:
		case <-time.After(closeBound):
			return fmt.Errorf("second Close did not return within %v", closeBound)
		}
	}
	// a rendezvous that was in flight when Close was called may still deliver a peer: it must be closed too
	deadline := time.Now().Add(3 * time.Second)
	for {
		tongue.mu.Lock()
		open := 0
		for _, p := range tongue.peers {
			if !p.Closed() {
				open++
			}
		}
		total := len(tongue.peers)
		tongue.mu.Unlock()
		if open == 0 {
			break
		}
		if time.Now().After(deadline) {
			return fmt.Errorf("3 s after Close (%s) %d of the %d peers the connection obtained are still open", state, open, total)
		}
		time.Sleep(20 * time.Millisecond)
	}
	if c.WaitPace {
		time.Sleep(ReconnectTimeout + 1500*time.Millisecond)
	} else {
		time.Sleep(400 * time.Millisecond)
	}
	tongue.mu.Lock()
	defer tongue.mu.Unlock()
	late := 0
	for _, t := range tongue.catches {
		// an attempt already in flight at Close may complete; anything started afterwards is a new attempt
		if t.After(closedAt.Add(350 * time.Millisecond)) {
			late++
		}
	}
	if late > 0 {
		return fmt.Errorf("%d rendezvous attempt(s) were made after Close (%s) had returned", late, state)
	}
	for _, p := range tongue.peers {
		if !p.Closed() {
			return fmt.Errorf("a peer obtained after Close is still open")
		}
	}
	uConn.Add("close: "+state, 1)
	return nil
}

var uConn = vstat.New("C15", "c15_conn")

func init() { vstat.Register(uConn, runConn) }

func TestVerifC15Conn(t *testing.T) {
	defer uConn.Flush()
	start := time.Now()
	slow := 0
	rapid.Check(t, func(rt *rapid.T) {
		if time.Since(start) > time.Duration(vstat.Pick(40, 500))*time.Second {
			return // time budget of this real-time unit used up
		}
		c := connCase{Max: rapid.IntRange(1, 3).Draw(rt, "max")}
		n := rapid.IntRange(1, 4).Draw(rt, "nscript")
		for i := 0; i < n; i++ {
			c.Script = append(c.Script, rapid.SampledFrom([]string{"dead", "dead", "fail", "slow-dead", "slow-fail"}).Draw(rt, "catch"))
		}
		c.WriteFirst = rapid.IntRange(0, 2).Draw(rt, "writefirst") == 0
		if !c.WriteFirst {
			c.CloseAtMs = rapid.SampledFrom([]int{0, 0, 50, 350, 1200}).Draw(rt, "closeat")
		}
		c.Twice = rapid.Bool().Draw(rt, "twice")
		if rapid.IntRange(0, 5).Draw(rt, "waitpace") == 0 && (vstat.Thorough() || slow == 0) {
			c.WaitPace = true
			slow++
		}
		labels := []string{"close when healthy"}
		if c.WriteFirst {
			labels = []string{"close after the data path reported an error"}
		}
		uConn.Journal(c)
		vstat.Run(uConn, t, rt, c, c.WriteFirst || c.Twice, labels, runConn)
	})
	uConn.JournalDone()
}
