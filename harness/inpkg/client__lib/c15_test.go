//go:build go1.25

// C15 Client bounds its peers, survives failed rendezvous, always shuts down.
// (a) Peers state machine with a scripted, gate-controlled Tongue.
package snowflake_client

import (
	"errors"
	"fmt"
	"io"
	"log"
	"runtime"
	"strings"
	"sync"
	"sync/atomic"
	"testing"
	"time"

	"pgregory.net/rapid"
	"verif.local/vstat"
)

func init() { log.SetOutput(io.Discard) }


type pop struct {
	Op string `json:"op"` // collect | pop | closepeer | release | end | loop
	K  int    `json:"k,omitempty"`
}

type catchSpec struct {
	Gate bool `json:"gate,omitempty"` // the rendezvous blocks until a "release" operation
	Err  bool `json:"err,omitempty"`
	// MaxGate: the collector's question for the maximum (asked once per Collect, before the rendezvous)
	// blocks until a "release" operation - a collector parked between its checks and the rendezvous
	MaxGate bool `json:"maxgate,omitempty"`
}

type pcase struct {
	Max     int         `json:"max"`
	Catches []catchSpec `json:"catches"` // cyclic script of the dialer
	Ops     []pop       `json:"ops"`
}

// scriptTongue is a dialer whose every step is decided by the case: a rendezvous
// either returns at once or stays in flight until the script releases it. No clock is
// involved (sync.Mutex waits freeze a synctest bubble, and Peers holds a mutex across
// the rendezvous, so the schedule is owned through explicit gates instead).
type scriptTongue struct {
	mu       sync.Mutex
	c        *pcase
	calls    int
	startSeq []int64 // logical time at which each Catch started
	created  []*WebRTCPeer
	gates    []chan struct{} // gates of rendezvous in flight
	inCatch  int
	clock    *int64
	maxCalls int
}

func (s *scriptTongue) GetMax() int {
	s.mu.Lock()
	n := s.maxCalls
	s.maxCalls++
	if n == 0 {
		s.mu.Unlock()
		return s.c.Max // the constructor's question (size of the hand-over channel)
	}
	spec := s.c.Catches[(n-1)%len(s.c.Catches)]
	var gate chan struct{}
	if spec.MaxGate {
		gate = make(chan struct{})
		s.gates = append(s.gates, gate)
	}
	s.mu.Unlock()
	if gate != nil {
		<-gate
	}
	return s.c.Max
}

func (s *scriptTongue) Catch() (*WebRTCPeer, error) {
	s.mu.Lock()
	i := s.calls
	s.calls++
	s.startSeq = append(s.startSeq, atomic.AddInt64(s.clock, 1))
	s.inCatch++
	spec := s.c.Catches[i%len(s.c.Catches)]
	var gate chan struct{}
	if spec.Gate {
		gate = make(chan struct{})
		s.gates = append(s.gates, gate)
	}
	s.mu.Unlock()
	if gate != nil {
		<-gate
	}
	s.mu.Lock()
	defer s.mu.Unlock()
	s.inCatch--
	if spec.Err {
		return nil, errors.New("scripted rendezvous failure")
	}
	p := &WebRTCPeer{closed: make(chan struct{})}
	s.created = append(s.created, p)
	return p, nil
}

func (s *scriptTongue) release(all bool) {
	s.mu.Lock()
	defer s.mu.Unlock()
	for len(s.gates) > 0 {
		close(s.gates[0])
		s.gates = s.gates[1:]
		if !all {
			return
		}
	}
}

func settle() {
	for i := 0; i < 3; i++ {
		runtime.Gosched()
		time.Sleep(200 * time.Microsecond)
	}
}

func runPeers(t *testing.T, c pcase) (err error) {
	var failMu sync.Mutex
	fail := func(format string, a ...any) {
		failMu.Lock()
		defer failMu.Unlock()
		if err == nil {
			err = fmt.Errorf(format, a...)
		}
	}
	var clock int64 // logical clock: bumped at every observable event
	tick := func() int64 { return atomic.AddInt64(&clock, 1) }
	tongue := &scriptTongue{c: &c, clock: &clock}
	p, e := NewPeers(tongue)
	if e != nil {
		return fmt.Errorf("NewPeers: %v", e)
	}
	type popRes struct {
		started, returned int64
		startStep         int
		done              bool
		peer              *WebRTCPeer
		checked           bool
	}
	type endRes struct {
		started, returned int64
		done              bool
		panic             string
	}
	var mu sync.Mutex
	var pops []*popRes
	var ends []*endRes
	var pending sync.WaitGroup // Collect / connectLoop goroutines
	step := 0
	closedStep := map[*WebRTCPeer]int{}
	firstEndReturned := int64(-1)
	loopStarted := false
	safeGo := func(what string, f func()) {
		pending.Add(1)
		go func() {
			defer pending.Done()
			defer func() {
				if r := recover(); r != nil {
					fail("%s panicked: %v", what, r)
				}
			}()
			f()
		}()
	}
	doEnd := func() {
		er := &endRes{started: tick()}
		mu.Lock()
		ends = append(ends, er)
		mu.Unlock()
		go func() {
			defer func() {
				if r := recover(); r != nil {
					mu.Lock()
					er.panic = fmt.Sprint(r)
					mu.Unlock()
				}
			}()
			p.End()
			mu.Lock()
			er.returned, er.done = tick(), true
			if firstEndReturned < 0 {
				firstEndReturned = er.returned
			}
			mu.Unlock()
		}()
	}
	observe := func() {
		settle()
		tongue.mu.Lock()
		created := append([]*WebRTCPeer{}, tongue.created...)
		tongue.mu.Unlock()
		live := 0
		for _, w := range created {
			if w.Closed() {
				if _, ok := closedStep[w]; !ok {
					closedStep[w] = step
				}
			} else {
				live++
			}
		}
		if live > c.Max {
			fail("step %d: %d live peers, configured maximum is %d", step, live, c.Max)
		}
		mu.Lock()
		for _, pr := range pops {
			if pr.done && !pr.checked {
				pr.checked = true
				if pr.peer != nil {
					if cs, ok := closedStep[pr.peer]; ok && cs < pr.startStep {
						fail("step %d: Pop (called at step %d) handed over a peer that had been closed at step %d", step, pr.startStep, cs)
					}
					if firstEndReturned >= 0 && pr.started > firstEndReturned {
						fail("step %d: Pop called after End had returned handed over a peer instead of nil", step)
					}
				}
			}
		}
		for _, er := range ends {
			if er.panic != "" {
				fail("End panicked: %s", er.panic)
			}
		}
		mu.Unlock()
	}
	for _, op := range c.Ops {
		step++
		switch op.Op {
		case "collect":
			safeGo("Collect", func() { p.Collect() })
		case "pop":
			pr := &popRes{started: tick(), startStep: step}
			mu.Lock()
			pops = append(pops, pr)
			mu.Unlock()
			go func() {
				defer func() {
					if r := recover(); r != nil {
						fail("Pop panicked: %v", r)
					}
				}()
				w := p.Pop()
				mu.Lock()
				pr.peer, pr.returned, pr.done = w, tick(), true
				mu.Unlock()
			}()
		case "closepeer":
			tongue.mu.Lock()
			var w *WebRTCPeer
			if len(tongue.created) > 0 {
				w = tongue.created[op.K%len(tongue.created)]
			}
			tongue.mu.Unlock()
			if w != nil {
				w.Close() // the peer goes away on its own (staleness, remote close)
			}
		case "release":
			tongue.release(false)
		case "end":
			doEnd()
		case "loop":
			if !loopStarted {
				loopStarted = true
				safeGo("connectLoop", func() { connectLoop(p) })
			}
		}
		observe()
	}
	// the connection is always closed in the end; rendezvous in flight then complete
	step++
	doEnd()
	observe()
	tongue.release(true)
	// Everything must now come to rest. Real time is used only as a stall detector with a
	// very generous budget (normal completion takes microseconds), doubled once before a
	// failure is reported.
	allDone := func() (bool, string) {
		mu.Lock()
		defer mu.Unlock()
		for i, er := range ends {
			if !er.done && er.panic == "" {
				return false, fmt.Sprintf("End call #%d has not returned although no rendezvous is in flight any more", i)
			}
		}
		for i, pr := range pops {
			if !pr.done {
				return false, fmt.Sprintf("Pop call #%d has not returned although the connection was ended", i)
			}
		}
		return true, ""
	}
	waitFor := func(d time.Duration) (bool, string) {
		deadline := time.Now().Add(d)
		for {
			tongue.release(true)
			ok, why := allDone()
			if ok || time.Now().After(deadline) {
				return ok, why
			}
			time.Sleep(time.Millisecond)
		}
	}
	if ok, _ := waitFor(4 * time.Second); !ok {
		if ok2, why := waitFor(8 * time.Second); !ok2 {
			buf := make([]byte, 1<<20)
			buf = buf[:runtime.Stack(buf, true)]
			var rel []string
			for _, g := range strings.Split(string(buf), "\n\n") {
				if strings.Contains(g, "client/lib.(*Peers)") {
					rel = append(rel, g)
				}
			}
			st := strings.Join(rel, "\n\n")
			if len(st) > 3000 {
				st = st[:3000]
			}
			fail("%s (waited 12 s of real time). Goroutines inside Peers:\n%s", why, st)
			return err
		}
	}
	collectDone := make(chan struct{})
	go func() { pending.Wait(); close(collectDone) }()
	select {
	case <-collectDone:
	case <-time.After(12 * time.Second):
		fail("a Collect or connectLoop call has not returned 12 s after End returned")
		return err
	}
	step++
	observe()
	mu.Lock()
	defer mu.Unlock()
	tongue.mu.Lock()
	defer tongue.mu.Unlock()
	for i, w := range tongue.created {
		if !w.Closed() {
			fail("peer #%d is still open after End returned", i)
		}
	}
	for i, s := range tongue.startSeq {
		if firstEndReturned >= 0 && s > firstEndReturned {
			fail("rendezvous attempt #%d started after End had returned", i)
		}
	}
	if tongue.inCatch != 0 {
		fail("a rendezvous attempt is still in flight at the end")
	}
	return err
}

var uPeers = vstat.New("C15", "c15_peers")

func init() { vstat.Register(uPeers, runPeers) }

func TestVerifC15Peers(t *testing.T) {
	defer uPeers.Flush()
	rapid.Check(t, func(rt *rapid.T) {
		c := pcase{Max: rapid.IntRange(1, 4).Draw(rt, "max")}
		nc := rapid.IntRange(1, 4).Draw(rt, "ncatch")
		for i := 0; i < nc; i++ {
			c.Catches = append(c.Catches, catchSpec{
				Gate:    rapid.Bool().Draw(rt, "gate"),
				Err:     rapid.IntRange(0, 3).Draw(rt, "err") == 0,
				MaxGate: rapid.IntRange(0, 3).Draw(rt, "maxgate") == 0,
			})
		}
		n := rapid.IntRange(1, 30).Draw(rt, "nops")
		ended, stale := false, false
		created, inFlight := 0, 0
		labels := map[string]bool{}
		for i := 0; i < n; i++ {
			op := pop{Op: rapid.SampledFrom([]string{"collect", "collect", "collect", "pop", "pop", "closepeer", "closepeer", "release", "release", "end", "loop"}).Draw(rt, "op")}
			switch op.Op {
			case "closepeer":
				op.K = rapid.IntRange(0, 7).Draw(rt, "k")
				stale = true
			case "release":
				if inFlight > 0 {
					inFlight--
				}
			case "collect", "loop":
				inFlight++
				created++
			case "end":
				if rapid.IntRange(0, 2).Draw(rt, "keepend") != 0 && !ended {
					op.Op = "release"
					break
				}
				if inFlight > 0 {
					labels["End while a Collect is in flight"] = true
				}
				if stale && created > 0 {
					labels["End after peers went stale"] = true
				}
				if ended {
					labels["repeated End"] = true
				}
				ended = true
			}
			c.Ops = append(c.Ops, op)
		}
		var ls []string
		for l := range labels {
			ls = append(ls, l)
		}
		uPeers.Journal(c)
		vstat.Run(uPeers, t, rt, c, len(labels) > 0, ls, runPeers)
	})
	uPeers.JournalDone()
}

func TestVerifReplay(t *testing.T) { vstat.RunReplays(t) }
