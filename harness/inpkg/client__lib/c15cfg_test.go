//go:build go1.25

// C15 (f) the client's entry point with generated configurations ("all ICE/broker configurations (including
// empty and invalid ones)"): NewSnowflakeClient returns a usable transport or an error - never (nil, nil),
// never a panic - and the broker channel it builds survives a change of NAT type followed by a rendezvous
// against a broker that refuses connections (the attempt is reported as an error within bounded time).
package snowflake_client

import (
	"fmt"
	"net"
	"testing"
	"time"

	"github.com/pion/webrtc/v3"
	"pgregory.net/rapid"
	"verif.local/vstat"
)

type cfgCase struct {
	Broker string   `json:"broker"`
	Cache  string   `json:"cache"`
	Front  string   `json:"front"`
	ICE    []string `json:"ice"`
	Max    int      `json:"max"`
	UTLS   string   `json:"utls"`
	FP     string   `json:"fp"`
	NAT    string   `json:"nat"` // set on the broker channel before the attempt ("" = left alone)
}

func deadHTTP() string {
	l, _ := net.Listen("tcp", "127.0.0.1:0")
	a := l.Addr().String()
	l.Close()
	return "http://" + a + "/"
}

func runCfg(_ *testing.T, c cfgCase) error {
	cfg := ClientConfig{BrokerURL: c.Broker, AmpCacheURL: c.Cache, FrontDomain: c.Front, ICEAddresses: c.ICE, Max: c.Max,
		UTLSClientID: c.UTLS, BridgeFingerprint: c.FP, KeepLocalAddresses: true}
	if cfg.BrokerURL == "<dead>" {
		cfg.BrokerURL = deadHTTP()
	}
	tr, err := NewSnowflakeClient(cfg)
	if (tr == nil) == (err == nil) {
		return fmt.Errorf("NewSnowflakeClient(%+v) returned (%v, %v): exactly one of transport and error is expected", c, tr, err)
	}
	if err != nil {
		return nil // configuration refused: fine
	}
	d := tr.dialer
	if d == nil || d.BrokerChannel == nil {
		return fmt.Errorf("NewSnowflakeClient(%+v) returned a transport without a broker channel", c)
	}
	if d.GetMax() < 1 {
		return fmt.Errorf("configured maximum %d gives a dialer maximum of %d (must be at least 1)", c.Max, d.GetMax())
	}
	if c.NAT != "" {
		d.BrokerChannel.SetNATType(c.NAT)
	}
	// one rendezvous attempt through the real construction; the broker is unreachable (or the URL unusable)
	done := make(chan error, 1)
	go func() {
		defer func() {
			if r := recover(); r != nil {
				done <- fmt.Errorf("peer construction panicked: %v", r)
			}
		}()
		peer, err := NewWebRTCPeerWithEvents(&webrtc.Configuration{}, d.BrokerChannel, nil)
		if peer != nil {
			peer.Close()
		}
		if err == nil {
			done <- fmt.Errorf("a rendezvous against an unreachable broker produced a peer")
			return
		}
		done <- nil
	}()
	select {
	case e := <-done:
		return e
	case <-time.After(60 * time.Second):
		return fmt.Errorf("a rendezvous attempt after SetNATType(%q) had not returned after 60 s (broker %q refuses connections at once)", c.NAT, c.Broker)
	}
}

var uCfg = vstat.New("C15", "c15_config")

func init() { vstat.Register(uCfg, runCfg) }

func TestVerifC15Config(t *testing.T) {
	defer uCfg.Flush()
	rapid.Check(t, func(rt *rapid.T) {
		c := cfgCase{
			Broker: rapid.SampledFrom([]string{"<dead>", "<dead>", "<dead>", "", "://bad", "http://127.0.0.1:1/base/", "%zz"}).Draw(rt, "broker"),
			Cache:  rapid.SampledFrom([]string{"", "", "", "http://127.0.0.1:1/", "://bad", "https://cdn.example/pfx"}).Draw(rt, "cache"),
			Front:  rapid.SampledFrom([]string{"", "", "127.0.0.1:1", "front.example"}).Draw(rt, "front"),
			ICE:    rapid.SampledFrom(iceConfigs).Draw(rt, "ice"),
			Max:    rapid.SampledFrom([]int{-1, 0, 1, 1, 3}).Draw(rt, "max"),
			UTLS:   rapid.SampledFrom([]string{"", "", "", "hellorandomizedalpn", "hellochrome_auto", "bogus"}).Draw(rt, "utls"),
			FP:     rapid.SampledFrom([]string{"", "", "2B280B23E1107BB62ABFC40DDCC8824814F80A72", "zz"}).Draw(rt, "fp"),
			NAT:    rapid.SampledFrom([]string{"", "unknown", "restricted", "unrestricted", "bogus"}).Draw(rt, "nat"),
		}
		uCfg.Journal(c)
		vstat.Run(uCfg, t, rt, c, c.NAT != "" || c.Cache != "" || c.Front != "", []string{"nat=" + c.NAT}, runCfg)
	})
	uCfg.JournalDone()
}
