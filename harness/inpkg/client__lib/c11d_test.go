//go:build go1.25

// C11 (d) fronting and limits of the client's rendezvous exchange: a recording
// RoundTripper stands in for the network.
package snowflake_client

import (
	"bytes"
	"encoding/base64"
	"fmt"
	"io"
	"net/http"
	"net/url"
	"strings"
	"testing"

	"git.torproject.org/pluggable-transports/snowflake.git/v2/common/amp"
	"pgregory.net/rapid"
	"verif.local/vstat"
)

type rzCase struct {
	Method   string `json:"method"` // http | amp
	Broker   string `json:"broker"`
	Front    string `json:"front"`
	Cache    string `json:"cache,omitempty"`
	Poll     []byte `json:"poll"`
	Status   int    `json:"status"`
	Location bool   `json:"location,omitempty"`
	// http: the response body is BodySize bytes; amp: a payload of PayloadSize bytes is armored
	BodySize    int  `json:"bodysize,omitempty"`
	PayloadSize int  `json:"payloadsize,omitempty"`
	Reflow      bool `json:"reflow,omitempty"`   // armored by the harness into many short pre elements holding whole base64 quanta
	Boundary    int  `json:"boundary,omitempty"` // reflow: an element boundary is placed exactly at this HTML offset
	Pad         int  `json:"pad,omitempty"`      // bytes of whitespace appended after the document
	// the first TransportErrors round trips fail with a transport-level error (reset, blocked front)
	TransportErrors int `json:"transport_errors,omitempty"`
}

type recRT struct {
	reqs []*http.Request
	body [][]byte
	resp func() *http.Response
	fail int // this many round trips fail before one succeeds
}

func (r *recRT) RoundTrip(req *http.Request) (*http.Response, error) {
	var b []byte
	if req.Body != nil {
		b, _ = io.ReadAll(req.Body)
	}
	r.reqs = append(r.reqs, req)
	r.body = append(r.body, b)
	if len(r.reqs) <= r.fail {
		return nil, fmt.Errorf("read tcp 192.0.2.1:40000->192.0.2.2:443: connection reset by peer")
	}
	return r.resp(), nil
}

func pay(n int) []byte {
	p := make([]byte, n)
	x := uint64(n)*0x9E3779B97F4A7C15 + 5
	for i := range p {
		x ^= x << 13
		x ^= x >> 7
		x ^= x << 17
		p[i] = byte(x >> 16)
	}
	return p
}

const ampHead = "<!doctype html>\n<html amp>\n<head>\n<meta charset=\"utf-8\">\n</head>\n<body>\n"
const ampTail = "</body>\n</html>"

// reflowed renders payload as an AMP cache might re-flow it: many short pre elements, each
// holding whole base64 quanta (so that any prefix of elements decodes cleanly), with an
// element boundary exactly at HTML offset boundary (if reachable).
func reflowed(payload []byte, boundary int) string {
	var b strings.Builder
	b.WriteString(ampHead)
	b.WriteString("<pre>\n0\n</pre>\n") // the version byte in an element of its own keeps the quanta aligned
	rest := payload
	for len(rest) > 0 {
		n := 24 * 40 // 960 bytes -> 1280 base64 chars per element
		if n > len(rest) {
			n = len(rest)
		}
		words := base64.StdEncoding.EncodeToString(rest[:n])
		rest = rest[n:]
		var e strings.Builder
		e.WriteString("<pre>\n")
		for len(words) > 0 {
			k := 32
			if k > len(words) {
				k = len(words)
			}
			e.WriteString(words[:k] + "\n")
			words = words[k:]
		}
		el := e.String()
		end := b.Len() + len(el) + len("</pre>\n")
		if boundary > 0 && end < boundary && boundary-end < 1400 && len(rest) > 0 {
			// stretch this element with whitespace so that the NEXT element ends exactly at boundary
			// (done when one more full element would overshoot): pad so that end+nextLen == boundary
			next := len("<pre>\n") + 1280 + 40 + len("</pre>\n")
			if end+next > boundary {
				el += strings.Repeat(" ", boundary-end)
			}
		}
		b.WriteString(el + "</pre>\n")
	}
	b.WriteString(ampTail)
	return b.String()
}

func armored(payload []byte) string {
	var b bytes.Buffer
	enc, _ := amp.NewArmorEncoder(&b)
	enc.Write(payload)
	enc.Close()
	return b.String()
}

func (c *rzCase) responseBody() (body []byte, payload []byte) {
	if c.Method == "http" {
		p := pay(c.BodySize)
		return p, p
	}
	payload = pay(c.PayloadSize)
	var doc string
	if c.Reflow {
		doc = reflowed(payload, c.Boundary)
	} else {
		doc = armored(payload)
	}
	doc += strings.Repeat("\n", c.Pad)
	return []byte(doc), payload
}

func (c *rzCase) exchange(front string) ([]byte, error, *recRT, error) {
	body, _ := c.responseBody()
	rt := &recRT{resp: func() *http.Response {
		h := http.Header{}
		if c.Location {
			h.Set("Location", "https://elsewhere.example/")
		}
		return &http.Response{StatusCode: c.Status, Status: fmt.Sprint(c.Status), Header: h, Body: io.NopCloser(bytes.NewReader(body)), ContentLength: int64(len(body))}
	}}
	if front != "" {
		rt.fail = c.TransportErrors
	}
	var rz RendezvousMethod
	var err error
	if c.Method == "http" {
		rz, err = newHTTPRendezvous(c.Broker, front, rt)
	} else {
		rz, err = newAMPCacheRendezvous(c.Broker, c.Cache, front, rt)
	}
	if err != nil {
		return nil, nil, nil, err
	}
	data, xerr := rz.Exchange(c.Poll)
	return data, xerr, rt, nil
}

func runRendezvousIO(_ *testing.T, c rzCase) error {
	body, payload := c.responseBody()
	data, xerr, rt, err := c.exchange(c.Front)
	if err != nil {
		return nil // unusable configuration (unparsable URL): nothing to say
	}
	_, _, rt0, err0 := c.exchange("")
	if err0 != nil {
		return nil
	}
	if len(rt.reqs) == 0 || len(rt0.reqs) == 0 {
		// the exchange failed before any request (e.g. the cache URL cannot be built): must be an error
		if xerr == nil {
			return fmt.Errorf("no request was made yet Exchange returned data")
		}
		return nil
	}
	if c.Front != "" && c.TransportErrors > 0 {
		// whatever the client does after a transport error (give up, as it does, or try again): every
		// request it makes connects to the front and names the broker/cache only in Host
		for k, q := range rt.reqs {
			if q.URL.Host != c.Front {
				return fmt.Errorf("with front %q, request #%d (after %d transport error(s)) connects to %q", c.Front, k+1, min(k, c.TransportErrors), q.URL.Host)
			}
			if q.Host != rt0.reqs[0].URL.Host {
				return fmt.Errorf("with front %q, request #%d (after %d transport error(s)) carries Host %q, expected %q", c.Front, k+1, min(k, c.TransportErrors), q.Host, rt0.reqs[0].URL.Host)
			}
		}
		if len(rt.reqs) <= c.TransportErrors && xerr == nil {
			return fmt.Errorf("every round trip failed (%d), yet Exchange returned %d bytes of data and no error", len(rt.reqs), len(data))
		}
		return nil
	}
	if len(rt.reqs) != 1 {
		return fmt.Errorf("%d requests were made for one exchange", len(rt.reqs))
	}
	req, req0 := rt.reqs[0], rt0.reqs[0]
	// request shape
	bu, _ := url.Parse(c.Broker)
	switch c.Method {
	case "http":
		want := bu.ResolveReference(&url.URL{Path: "client"})
		if req0.Method != "POST" || req0.URL.String() != want.String() || !bytes.Equal(rt0.body[0], c.Poll) {
			return fmt.Errorf("HTTP rendezvous: %s %s with %d body bytes; expected POST %s carrying the poll", req0.Method, req0.URL, len(rt0.body[0]), want)
		}
	case "amp":
		if req0.Method != "GET" || len(rt0.body[0]) != 0 {
			return fmt.Errorf("AMP rendezvous: %s with %d body bytes; expected a GET without body", req0.Method, len(rt0.body[0]))
		}
		p := req0.URL.Path
		i := strings.Index(p, "amp/client/")
		if i < 0 {
			return fmt.Errorf("AMP rendezvous: path %q has no amp/client/ component", p)
		}
		got, derr := amp.DecodePath(p[i+len("amp/client/"):])
		if derr != nil || !bytes.Equal(got, c.Poll) {
			return fmt.Errorf("AMP rendezvous: the poll encoded in path %q decodes to %q (%v), expected the poll", clipS(p), clipS(string(got)), derr)
		}
		// the poll lives under the broker URL's own path: <broker path>amp/client/<poll>, directly or
		// below the cache's /c[/s]/<broker host> prefix
		direct := bu.ResolveReference(&url.URL{Path: "amp/client/" + p[i+len("amp/client/"):]})
		if c.Cache == "" {
			if req0.URL.Path != direct.Path {
				return fmt.Errorf("AMP rendezvous for broker %q requests path %q, expected %q (the broker URL's path is kept)", c.Broker, clipS(req0.URL.Path), clipS(direct.Path))
			}
		} else {
			want := "/c/"
			if bu.Scheme == "https" {
				want = "/c/s/"
			}
			want += bu.Host + direct.Path
			if !strings.HasSuffix(req0.URL.Path, want) {
				return fmt.Errorf("AMP rendezvous for broker %q through cache %q requests path %q, expected it to end in %q (broker host and path kept under the cache prefix)", c.Broker, c.Cache, clipS(req0.URL.Path), clipS(want))
			}
		}
		if c.Cache != "" {
			cu, _ := url.Parse(c.Cache)
			if !strings.HasSuffix(req0.URL.Hostname(), "."+cu.Hostname()) {
				return fmt.Errorf("AMP rendezvous through cache %q goes to host %q", c.Cache, req0.URL.Host)
			}
		} else if req0.URL.Host != bu.Host {
			return fmt.Errorf("AMP rendezvous without cache goes to host %q, broker is %q", req0.URL.Host, bu.Host)
		}
	}
	// metamorphic: with a front only the connection target changes, the broker/cache is named in Host
	if c.Front != "" {
		if req.URL.Host != c.Front {
			return fmt.Errorf("with front %q the request connects to %q", c.Front, req.URL.Host)
		}
		if req.Host != req0.URL.Host {
			return fmt.Errorf("with front %q the Host header is %q, expected the unfronted host %q", c.Front, req.Host, req0.URL.Host)
		}
		if req.Method != req0.Method || req.URL.Scheme != req0.URL.Scheme || req.URL.RawQuery != req0.URL.RawQuery || !bytes.Equal(rt.body[0], rt0.body[0]) {
			return fmt.Errorf("fronted request differs from the unfronted one in more than the host: %s %s vs %s %s", req.Method, req.URL, req0.Method, req0.URL)
		}
		if c.Method == "http" && req.URL.Path != req0.URL.Path {
			return fmt.Errorf("fronted request path %q differs from unfronted %q", req.URL.Path, req0.URL.Path)
		}
	} else if req.Host != "" && req.Host != req.URL.Host {
		return fmt.Errorf("without a front the Host header is %q for URL host %q", req.Host, req.URL.Host)
	}
	// result
	mustFail := c.Status != 200 || len(body) > readLimit || (c.Method == "amp" && c.Location)
	if mustFail {
		if xerr == nil {
			return fmt.Errorf("%s rendezvous: status %d, response body of %d bytes (limit %d), location=%v: Exchange returned %d bytes of data and no error; it must report an error, never (possibly truncated) data", c.Method, c.Status, len(body), readLimit, c.Location, len(data))
		}
		return nil
	}
	if xerr != nil {
		return fmt.Errorf("%s rendezvous: status 200, body of %d bytes within the limit: Exchange failed with %v", c.Method, len(body), xerr)
	}
	if !bytes.Equal(data, payload) {
		return fmt.Errorf("%s rendezvous: Exchange returned %d bytes, the response carries %d bytes (data must be the whole payload)", c.Method, len(data), len(payload))
	}
	return nil
}

func clipS(s string) string {
	if len(s) > 80 {
		return s[:80] + "…"
	}
	return s
}

var uRzIO = vstat.New("C11", "c11_client_exchange")

func init() { vstat.Register(uRzIO, runRendezvousIO) }

func TestVerifC11ClientExchange(t *testing.T) {
	defer uRzIO.Flush()
	rapid.Check(t, func(rt *rapid.T) {
		c := rzCase{Method: rapid.SampledFrom([]string{"http", "amp"}).Draw(rt, "method")}
		c.Broker = rapid.SampledFrom([]string{"https://snowflake-broker.torproject.net/", "https://broker.example/base/", "http://127.0.0.1:8080/", "https://broker.example", "https://b.example/a/b"}).Draw(rt, "broker")
		c.Front = rapid.SampledFrom([]string{"", "", "cdn.sstatic.net", "front.example:8443", "www.google.com"}).Draw(rt, "front")
		if c.Method == "amp" {
			c.Cache = rapid.SampledFrom([]string{"", "https://cdn.ampproject.org/", "https://amp.cache.example/pfx"}).Draw(rt, "cache")
		}
		c.Poll = []byte("1.0\n{\"offer\":\"" + rapid.StringMatching(`[a-zA-Z0-9 /+=]{0,60}`).Draw(rt, "offer") + "\",\"nat\":\"unknown\"}")
		c.Status = rapid.SampledFrom([]int{200, 200, 200, 200, 204, 301, 302, 400, 404, 500, 503}).Draw(rt, "status")
		var labels []string
		nt := c.Status != 200
		if c.Method == "http" {
			c.BodySize = rapid.OneOf(rapid.SampledFrom([]int{0, 1, 99999, 100000, 100001, 100002, 1 << 20}), rapid.IntRange(0, 3000)).Draw(rt, "bodysize")
			if c.BodySize >= 99999 && c.BodySize <= 100002 {
				nt = true
				labels = append(labels, "body at the limit")
			}
		} else {
			c.Location = rapid.IntRange(0, 6).Draw(rt, "location") == 0
			switch rapid.IntRange(0, 5).Draw(rt, "ampsize") {
			case 0:
				c.PayloadSize = rapid.IntRange(0, 3000).Draw(rt, "payload")
			case 1, 2:
				// standard armor with the document length steered to the limit +- a few bytes
				c.PayloadSize = rapid.IntRange(60000, 71900).Draw(rt, "payload")
				h := len(armored(pay(c.PayloadSize)))
				target := readLimit + rapid.IntRange(-3, 20).Draw(rt, "delta")
				if target > h {
					c.Pad = target - h
				}
				nt = true
				labels = append(labels, "document length at the limit")
			case 3:
				// just over the limit with the cut inside the trailer
				c.PayloadSize = rapid.IntRange(71950, 71990).Draw(rt, "payload")
				nt = true
				labels = append(labels, "cut inside the trailer")
			case 4, 5:
				// re-flowed by a cache, an element boundary exactly at / around the limit
				c.Reflow = true
				c.PayloadSize = rapid.IntRange(60000, 120000).Draw(rt, "payload")
				c.Boundary = readLimit + rapid.SampledFrom([]int{-1, 0, 1, 1, 1, 2, 500}).Draw(rt, "boundary")
				nt = true
				labels = append(labels, "re-flowed, element boundary at the limit")
			}
		}
		if c.Front != "" {
			labels = append(labels, "fronted")
			if rapid.IntRange(0, 3).Draw(rt, "transporterr") == 0 {
				c.TransportErrors = rapid.IntRange(1, 3).Draw(rt, "nerr")
				labels = append(labels, "fronted, first round trip(s) fail")
				nt = true
			}
		}
		vstat.Run(uRzIO, t, rt, c, nt, labels, runRendezvousIO)
	})
}
