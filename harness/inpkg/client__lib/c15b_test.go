//go:build go1.25

// C15 (b) failed rendezvous of every kind against real pion: reported, never fatal.
package snowflake_client

import (
	"strings"
	"errors"
	"fmt"
	"sync"
	"testing"
	"time"

	"git.torproject.org/pluggable-transports/snowflake.git/v2/common/event"
	"git.torproject.org/pluggable-transports/snowflake.git/v2/common/messages"
	"git.torproject.org/pluggable-transports/snowflake.git/v2/common/util"
	"github.com/pion/webrtc/v3"
	"pgregory.net/rapid"
	"verif.local/vstat"
	"verif.local/vstat/gen"
)

type rvCase struct {
	ICE     []string `json:"ice"`
	Outcome string   `json:"outcome"`
	Twice   bool     `json:"twice,omitempty"`
	// outcome custom-answer: a real answer to the client's own offer, re-typed / with its SDP mutated
	AnsType string   `json:"anstype,omitempty"` // "=" keeps "answer"
	AnsMuts []string `json:"ansmuts,omitempty"`
}

type scriptedRendezvous struct {
	outcome string
	calls   int
	ansType string
	ansMuts []string
}

func (s *scriptedRendezvous) Exchange(req []byte) ([]byte, error) {
	s.calls++
	switch s.outcome {
	case "transport-error":
		return nil, errors.New("dial tcp 203.0.113.1:443: connect: network is unreachable")
	case "empty":
		return []byte{}, nil
	case "nonjson":
		return []byte("<html>502 Bad Gateway</html>"), nil
	case "error-json":
		return []byte(`{"error":"no snowflake proxies currently available"}`), nil
	case "timeout-json":
		return []byte(`{"error":"timed out waiting for answer!"}`), nil
	case "answer-wrong-type":
		return []byte(`{"answer":5}`), nil
	case "answer-not-json":
		return []byte(`{"answer":"v=0"}`), nil
	case "answer-type-confusion":
		return []byte(`{"answer":"{\"type\":1,\"sdp\":null}"}`), nil
	case "answer-bad-sdp":
		return []byte(`{"answer":"{\"type\":\"answer\",\"sdp\":\"garbage\"}"}`), nil
	case "answer-parser-panic-sdp":
		// SDP text on which pion's parser panics (D14)
		return []byte(`{"answer":"{\"type\":\"answer\",\"sdp\":\"v=0\\r\\no=- 1 1 IN IP4 0.0.0.0\\r\\ns=-\\r\\nt=0 0\\r\\nr= \\r\\nm=application 9 UDP/DTLS/SCTP webrtc-datachannel\\r\\n\"}"}`), nil
	case "answer-is-offer":
		return []byte(`{"answer":"{\"type\":\"offer\",\"sdp\":\"v=0\\r\\n\"}"}`), nil
	case "both-empty":
		return []byte(`{}`), nil
	case "valid-answer-never-connects", "custom-answer":
		// a real answer from a real peer that goes away at once: the data channel never opens
		pr, err := messages.DecodeClientPollRequest(req)
		if err != nil {
			return nil, err
		}
		offer, err := util.DeserializeSessionDescription(pr.Offer)
		if err != nil {
			return nil, err
		}
		pc, err := webrtc.NewPeerConnection(webrtc.Configuration{})
		if err != nil {
			return nil, err
		}
		defer pc.Close()
		if err := pc.SetRemoteDescription(*offer); err != nil {
			return nil, err
		}
		ans, err := pc.CreateAnswer(nil)
		if err != nil {
			return nil, err
		}
		done := webrtc.GatheringCompletePromise(pc)
		if err := pc.SetLocalDescription(ans); err != nil {
			return nil, err
		}
		<-done
		a, _ := util.SerializeSessionDescription(pc.LocalDescription())
		if s.outcome == "custom-answer" {
			a = gen.MutatedDescription(a, s.ansType, s.ansMuts)
		}
		return (&messages.ClientPollResponse{Answer: a}).EncodePollResponse()
	}
	return nil, errors.New("unscripted")
}

type evRec struct {
	mu  sync.Mutex
	evs []event.SnowflakeEvent
}

func (r *evRec) OnNewSnowflakeEvent(e event.SnowflakeEvent) {
	r.mu.Lock()
	defer r.mu.Unlock()
	r.evs = append(r.evs, e)
}

func runRendezvous(_ *testing.T, c rvCase) error {
	n := 1
	if c.Twice {
		n = 2
	}
	rv := &scriptedRendezvous{outcome: c.Outcome, ansType: c.AnsType, ansMuts: c.AnsMuts}
	broker := &BrokerChannel{Rendezvous: rv, keepLocalAddresses: true, natType: "unknown"}
	config := &webrtc.Configuration{ICEServers: parseIceServers(c.ICE)}
	for k := 0; k < n; k++ {
		rec := &evRec{}
		peer, err := NewWebRTCPeerWithEvents(config, broker, rec)
		if c.Outcome == "custom-answer" {
			// a damaged answer may be refused (nil, error) or - if the damage is harmless - accepted; the
			// answering peer has gone away, so the data channel never opens: either way the call returns
			if (err == nil) == (peer == nil) {
				return fmt.Errorf("attempt %d: answer of type %q with SDP mutations %v: peer construction returned (%v, %v)", k+1, c.AnsType, c.AnsMuts, peer, err)
			}
			if peer != nil {
				peer.Close()
			}
			// every event the attempt emitted must be printable (the client binary's listener logs each one)
			rec.mu.Lock()
			for _, e := range rec.evs {
				_ = e.String()
			}
			rec.mu.Unlock()
			continue
		}
		if err == nil || peer != nil {
			if peer != nil {
				peer.Close()
			}
			return fmt.Errorf("attempt %d: peer construction with ICE %q and broker outcome %q returned (%v, %v); expected (nil, error)", k+1, c.ICE, c.Outcome, peer, err)
		}
		rec.mu.Lock()
		nev := len(rec.evs)
		var failed bool
		for _, e := range rec.evs {
			switch ev := e.(type) {
			case event.EventOnOfferCreated:
				if ev.Error != nil {
					failed = true
				}
			case event.EventOnBrokerRendezvous:
				if ev.Error != nil {
					failed = true
				}
			case event.EventOnSnowflakeConnectionFailed:
				failed = true
			}
			_ = e.String() // the log line must be printable
		}
		rec.mu.Unlock()
		// "reported" = the error is returned to the collector loop (which logs it and retries);
		// events are emitted for most steps but not all (e.g. an SDP that pion rejects), which
		// the statement does not demand.
		if nev > 0 && failed {
			uRv.Add("label:failure also reported as event", 1)
		}
	}
	return nil
}

var uRv = vstat.New("C15", "c15_rendezvous")

func init() { vstat.Register(uRv, runRendezvous) }

var iceConfigs = [][]string{nil, {}, {""}, {" "}, {"garbage"}, {"stun:"}, {"http://example.com"}, {"turn:127.0.0.1:3478"}, {"stun:127.0.0.1:9"}, {"", "stun:127.0.0.1:9"}, {"stun:[::1]:9"}, {"stuns:127.0.0.1:9?transport=udp"}}

var slowRv int // 10-second outcomes generated so far in this process

func TestVerifC15Rendezvous(t *testing.T) {
	defer uRv.Flush()
	start := time.Now()
	rapid.Check(t, func(rt *rapid.T) {
		if time.Since(start) > time.Duration(vstat.Pick(60, 600))*time.Second {
			return // time budget of this real-time unit used up: the remaining iterations are empty (not counted as cases)
		}
		outcomes := []string{"transport-error", "empty", "nonjson", "error-json", "timeout-json", "answer-wrong-type", "answer-not-json", "answer-type-confusion", "answer-bad-sdp", "answer-parser-panic-sdp", "answer-is-offer", "both-empty"}
		if vstat.Thorough() || slowRv == 0 {
			// costs the client's 10 s data channel time-out: thorough tier, and once per process in the quick tier
			outcomes = append(outcomes, "valid-answer-never-connects")
		}
		c := rvCase{
			ICE:     rapid.SampledFrom(iceConfigs).Draw(rt, "ice"),
			Outcome: rapid.SampledFrom(outcomes).Draw(rt, "outcome"),
			Twice:   rapid.Bool().Draw(rt, "twice"),
		}
		if !vstat.Thorough() && vstat.Shard() == 0 && slowRv == 0 {
			c.Outcome = "valid-answer-never-connects" // quick tier: shard 0 always runs it once
		}
		if c.Outcome == "valid-answer-never-connects" {
			slowRv++
			c.ICE, c.Twice = nil, false // needs a usable configuration to get as far as the answer
		}
		uRv.Journal(c)
		vstat.Run(uRv, t, rt, c, true, []string{"outcome=" + c.Outcome, fmt.Sprintf("ice=%q", c.ICE)}, runRendezvous)
	})
	uRv.JournalDone()
}

// C13 (client side, end to end): answers that decode but that the WebRTC stack refuses, or damaged
// ones it still accepts, returned by the broker to the real peer construction. The client process must
// survive (journal), the call must return.
var uAnswers = vstat.New("C13", "c13_client_answers")

func init() { vstat.Register(uAnswers, runRendezvous) }

func TestVerifC13ClientAnswers(t *testing.T) {
	defer uAnswers.Flush()
	start := time.Now()
	rapid.Check(t, func(rt *rapid.T) {
		if time.Since(start) > time.Duration(vstat.Pick(45, 600))*time.Second {
			return // time budget of this real-time unit used up
		}
		c := rvCase{Outcome: "custom-answer", Twice: rapid.IntRange(0, 3).Draw(rt, "twice") == 0}
		c.AnsType, c.AnsMuts = gen.DescMutation(rt, "answer")
		uAnswers.Journal(c)
		uAnswers.Case(c, true, "type "+c.AnsType, "sdp "+strings.Join(c.AnsMuts, "+"))
		if err := vstat.Safely(func() error { return runRendezvous(t, c) }); err != nil {
			if vstat.Inconclusive(err) {
				uAnswers.Add("inconclusive", 1)
				return
			}
			rt.Fatalf("%s", uAnswers.Fail(c, "%v", err))
		}
	})
	uAnswers.JournalDone()
}
