//go:build go1.25

// C15 (d) peers that close on their own while the data path asks for the next one. The peers
// are real WebRTCPeers with a real (offline, never connected) pion PeerConnection and data
// channel, so that tearing one down takes real time. Every peer has a reader blocked in Read,
// as the data path's receive loop is; the moment a reader is told the peer has ended it does
// what the data path does - it asks Peers.Pop for the next peer.
//
// Oracle (sound by a happens-before chain: teardown start -> pipe closed -> reader woken ->
// flag stored -> Pop called): a peer whose reader had been told "ended" BEFORE Pop was called
// is an already closed peer; Pop must not return it.
package snowflake_client

import (
	"fmt"
	"io"
	"sync"
	"sync/atomic"
	"testing"
	"time"

	"git.torproject.org/pluggable-transports/snowflake.git/v2/common/event"
	"github.com/pion/webrtc/v3"
	"pgregory.net/rapid"
	"verif.local/vstat"
)

type tdCase struct {
	Max    int      `json:"max"`
	Peers  int      `json:"peers"`  // peers collected before anything closes (<= Max)
	Closes []string `json:"closes"` // per collected peer, in hand-over order: "" (stays open) | close | stale
	Gap    []int    `json:"gap_us"` // delay before each scripted close
}

type tdPeer struct {
	p     *WebRTCPeer
	ended atomic.Bool // the reader of this peer was told the peer has ended
}

type tdTongue struct {
	max   int
	mu    sync.Mutex
	made  []*tdPeer
	ended chan *tdPeer
}

func (d *tdTongue) GetMax() int { return d.max }

func (d *tdTongue) Catch() (*WebRTCPeer, error) {
	c := &WebRTCPeer{id: "snowflake-verif", closed: make(chan struct{}), bytesLogger: &bytesNullLogger{}, eventsLogger: event.NewSnowflakeEventDispatcher()}
	c.recvPipe, c.writePipe = io.Pipe()
	if err := c.preparePeerConnection(&webrtc.Configuration{}); err != nil {
		return nil, err
	}
	tp := &tdPeer{p: c}
	d.mu.Lock()
	d.made = append(d.made, tp)
	d.mu.Unlock()
	go func() {
		buf := make([]byte, 16)
		for {
			if _, err := c.Read(buf); err != nil {
				tp.ended.Store(true)
				d.ended <- tp
				return
			}
		}
	}()
	return c, nil
}

func (d *tdTongue) find(p *WebRTCPeer) *tdPeer {
	d.mu.Lock()
	defer d.mu.Unlock()
	for _, tp := range d.made {
		if tp.p == p {
			return tp
		}
	}
	return nil
}

func runTeardown(_ *testing.T, c tdCase) error {
	d := &tdTongue{max: c.Max, ended: make(chan *tdPeer, 64)}
	peers, err := NewPeers(d)
	if err != nil {
		return fmt.Errorf("harness: %v", err)
	}
	for i := 0; i < c.Peers; i++ {
		if _, err := peers.Collect(); err != nil {
			return fmt.Errorf("harness: collecting offline peer #%d: %v", i, err)
		}
	}
	d.mu.Lock()
	made := append([]*tdPeer{}, d.made...)
	d.mu.Unlock()
	var wg sync.WaitGroup
	nclose := 0
	for i, how := range c.Closes {
		if i >= len(made) || how == "" {
			continue
		}
		nclose++
		wg.Add(1)
		go func(tp *tdPeer, how string, gap int) {
			defer wg.Done()
			time.Sleep(time.Duration(gap) * time.Microsecond)
			if how == "stale" {
				tp.p.checkForStaleness(time.Millisecond) // the spare peer goes stale and closes itself
			} else {
				tp.p.Close() // what the data channel's OnClose callback does when the proxy goes away
			}
		}(made[i], how, c.Gap[i%len(c.Gap)])
	}
	var verdict error
	popped := map[*WebRTCPeer]bool{}
	for k := 0; k < nclose; k++ {
		select {
		case <-d.ended:
		case <-time.After(20 * time.Second):
			verdict = fmt.Errorf("harness: a closing peer's reader was not woken within 20 s")
		}
		if verdict != nil {
			break
		}
		// the data path lost its peer: it asks for the next one. Which peers had ended BEFORE this call?
		before := map[*tdPeer]bool{}
		for _, tp := range made {
			if tp.ended.Load() {
				before[tp] = true
			}
		}
		got := make(chan *WebRTCPeer, 1)
		go func() { got <- peers.Pop() }()
		var p *WebRTCPeer
		select {
		case p = <-got:
		case <-time.After(300 * time.Millisecond):
			// every remaining spare is closed or closing: Pop waits for a new peer, nobody collects one here
			continue
		}
		if p == nil {
			continue
		}
		tp := d.find(p)
		if tp != nil && before[tp] {
			verdict = fmt.Errorf("Pop handed over a peer whose receive side had already ended before Pop was called (the peer was closing on its own; Closed()=%v at hand-over): an already closed peer reached the data path (max %d, %d collected, closes %v)", p.Closed(), c.Max, c.Peers, c.Closes)
			break
		}
		if popped[p] {
			verdict = fmt.Errorf("Pop handed over the same peer twice")
			break
		}
		popped[p] = true
	}
	wg.Wait()
	peers.End()
	for _, tp := range made {
		if !tp.p.Closed() && verdict == nil {
			verdict = fmt.Errorf("after End a collected peer is still open")
		}
		tp.p.Close()
	}
	return verdict
}

var uTeardown = vstat.New("C15", "c15_teardown")

func init() { vstat.Register(uTeardown, runTeardown) }

func TestVerifC15Teardown(t *testing.T) {
	defer uTeardown.Flush()
	start := time.Now()
	rapid.Check(t, func(rt *rapid.T) {
		if time.Since(start) > time.Duration(vstat.Pick(40, 400))*time.Second {
			return // time budget of this real-time unit used up
		}
		c := tdCase{Max: rapid.IntRange(1, 4).Draw(rt, "max")}
		c.Peers = rapid.IntRange(1, c.Max).Draw(rt, "peers")
		ncl := 0
		for i := 0; i < c.Peers; i++ {
			how := rapid.SampledFrom([]string{"", "close", "close", "stale"}).Draw(rt, "how")
			if how != "" {
				ncl++
			}
			c.Closes = append(c.Closes, how)
			c.Gap = append(c.Gap, rapid.SampledFrom([]int{0, 0, 100, 1000, 5000}).Draw(rt, "gap"))
		}
		vstat.Run(uTeardown, t, rt, c, ncl >= 1 && c.Peers >= 2, []string{fmt.Sprintf("peers closing on their own=%d", ncl)}, runTeardown)
	})
}
