//go:build go1.25

// C17 (c) client map: explicit-clock state machine on clientMapInner, and the real
// ClientMap with a short real timeout.
package turbotunnel

import (
	"fmt"
	"net"
	"sync"
	"sync/atomic"
	"testing"
	"time"

	"pgregory.net/rapid"
	"verif.local/vstat"
)

type taddr string

func (a taddr) Network() string { return "t" }
func (a taddr) String() string  { return string(a) }

type mop struct {
	Op   string `json:"op"` // seen | sweep
	Addr int    `json:"addr,omitempty"`
	Dt   int64  `json:"dt"` // clock advance before the op (>= 0)
	Put  bool   `json:"put,omitempty"`
}

type mcase struct {
	Timeout int64 `json:"timeout"`
	Ops     []mop `json:"ops"`
}

func runInner(_ *testing.T, c mcase) error {
	inner := &clientMapInner{byAge: make([]*clientRecord, 0), byAddr: make(map[net.Addr]int)}
	addrs := []net.Addr{taddr("a"), taddr("b"), taddr("c"), ClientID{1}, ClientID{}}
	type rec struct {
		last    time.Time
		q       chan []byte
		content int
	}
	model := map[int]*rec{}
	now := time.Unix(1000, 0)
	timeout := time.Duration(c.Timeout)
	closedQ := map[chan []byte]bool{}
	for i, op := range c.Ops {
		now = now.Add(time.Duration(op.Dt))
		a := op.Addr % len(addrs)
		switch op.Op {
		case "seen":
			q := inner.SendQueue(addrs[a], now)
			m, ok := model[a]
			if ok {
				if q != m.q {
					return fmt.Errorf("op #%d: SendQueue(%v) returned a different channel while the record was live (contents lost)", i, addrs[a])
				}
				m.last = now
			} else {
				if closedQ[q] {
					return fmt.Errorf("op #%d: SendQueue(%v) returned a closed queue", i, addrs[a])
				}
				m = &rec{last: now, q: q}
				model[a] = m
			}
			if op.Put {
				select {
				case q <- []byte{byte(i)}:
					m.content++
				default:
				}
			}
		case "sweep":
			inner.removeExpired(now, timeout)
			for k, m := range model {
				idle := now.Sub(m.last)
				closed := isClosed(m.q, m.content)
				if idle >= timeout {
					if !closed {
						return fmt.Errorf("op #%d: record %v idle for %v (timeout %v) survived the sweep", i, addrs[k], idle, timeout)
					}
					closedQ[m.q] = true
					delete(model, k)
				} else if closed {
					return fmt.Errorf("op #%d: record %v idle for only %v (timeout %v) was discarded", i, addrs[k], idle, timeout)
				}
			}
		}
		// structural invariants
		if len(inner.byAge) != len(inner.byAddr) || len(inner.byAge) != len(model) {
			return fmt.Errorf("op #%d: map holds %d/%d records, model %d", i, len(inner.byAge), len(inner.byAddr), len(model))
		}
		for ad, idx := range inner.byAddr {
			if idx < 0 || idx >= len(inner.byAge) || inner.byAge[idx].Addr != ad {
				return fmt.Errorf("op #%d: index of %v is stale", i, ad)
			}
		}
		for k := 1; k < len(inner.byAge); k++ {
			if inner.byAge[k].LastSeen.Before(inner.byAge[(k-1)/2].LastSeen) {
				return fmt.Errorf("op #%d: heap order broken at %d", i, k)
			}
		}
		for k, m := range model {
			idx, ok := inner.byAddr[addrs[k]]
			if !ok || !inner.byAge[idx].LastSeen.Equal(m.last) || len(m.q) != m.content {
				return fmt.Errorf("op #%d: record %v: present=%v, queue holds %d packets, model %d", i, addrs[k], ok, len(m.q), m.content)
			}
		}
	}
	return nil
}

// isClosed reports whether q has been closed (draining a copy of the count only).
func isClosed(q chan []byte, content int) bool {
	// A closed channel with buffered items still yields them first; check with len and a
	// non-blocking receive only when empty.
	if content > 0 {
		// peek: cannot without consuming; consume one and, if open, put it back
		select {
		case p, ok := <-q:
			if !ok {
				return true
			}
			// try to restore; if the channel was closed this panics, which recover turns into "closed"
			closed := false
			func() {
				defer func() {
					if recover() != nil {
						closed = true
					}
				}()
				q <- p
			}()
			return closed
		default:
			return false
		}
	}
	select {
	case _, ok := <-q:
		return !ok
	default:
		return false
	}
}

var uInner = vstat.New("C17", "c17_clientmap")

func init() { vstat.Register(uInner, runInner) }

func TestVerifC17ClientMap(t *testing.T) {
	defer uInner.Flush()
	rapid.Check(t, func(rt *rapid.T) {
		c := mcase{Timeout: int64(rapid.SampledFrom([]time.Duration{time.Minute, 10 * time.Second, time.Nanosecond * 4}).Draw(rt, "timeout"))}
		n := rapid.IntRange(1, 50).Draw(rt, "nops")
		saved := false
		for i := 0; i < n; i++ {
			op := mop{Op: rapid.SampledFrom([]string{"seen", "seen", "sweep"}).Draw(rt, "op"), Addr: rapid.IntRange(0, 4).Draw(rt, "addr"), Put: rapid.Bool().Draw(rt, "put")}
			switch rapid.IntRange(0, 5).Draw(rt, "dt") {
			case 0:
				op.Dt = 0
			case 1:
				op.Dt = c.Timeout
			case 2:
				op.Dt = c.Timeout - 1
				saved = true
			case 3:
				op.Dt = c.Timeout / 2
			case 4:
				op.Dt = 1
			default:
				op.Dt = c.Timeout/4 + 1
			}
			c.Ops = append(c.Ops, op)
		}
		vstat.Run(uInner, t, rt, c, saved && n >= 4, nil, runInner)
	})
}

// The real ClientMap (its sweeper cannot be stopped, so no fake clock): lower bound
// exact in real time (delays only make the observed idle time longer), upper bound
// with generous slack (stall rule).
func TestVerifC17ClientMapRealTime(t *testing.T) {
	u := vstat.New("C17", "c17_clientmap_rt")
	defer u.Flush()
	// every look-up returns at once by design; one that has not returned after 10 s is reported (e.g. the
	// sweeper keeping the map's lock)
	sq := func(m *ClientMap, a net.Addr) chan []byte {
		ch := make(chan chan []byte, 1)
		go func() { ch <- m.SendQueue(a) }()
		select {
		case q := <-ch:
			return q
		case <-time.After(10 * time.Second):
			t.Fatalf("%s", u.Fail(0, "SendQueue had not returned after 10 s: the map's lock is held for good (sweeper?)"))
			return nil
		}
	}
	timeout := 300 * time.Millisecond
	for round := 0; round < vstat.Pick(3, 12); round++ {
		m := NewClientMap(timeout)
		a, b := taddr("x"), taddr("y")
		// lastA / lastB are taken BEFORE the call that refreshes the entry (the map's own time stamp is
		// taken later), and "now" AFTER the observation: the measured age is an upper bound of the real one
		lastA := time.Now()
		qa := sq(m, a)
		qa <- []byte("keep")
		lastB := time.Now()
		qb := sq(m, b)
		_ = qb
		// keep a alive for ~3 timeouts by touching it every timeout/3; b is left idle
		deadline := time.Now().Add(3 * timeout)
		bClosedAt := time.Time{}
		replaced := false
		for time.Now().Before(deadline) {
			before := time.Now()
			q := sq(m, a)
			if q != qa {
				if age := time.Since(lastA); age < timeout {
					t.Fatalf("%s", u.Fail(round, "queue of a client seen at most %v ago (timeout %v) was replaced", age, timeout))
				}
				qa = q // scheduling stall longer than the timeout: legitimately expired
				replaced = true
			}
			lastA = before
			if bClosedAt.IsZero() {
				select {
				case _, ok := <-qb:
					if !ok {
						bClosedAt = time.Now()
						if bClosedAt.Sub(lastB) < timeout {
							t.Fatalf("%s", u.Fail(round, "idle queue closed after only %v (timeout %v)", bClosedAt.Sub(lastB), timeout))
						}
					}
				default:
				}
			}
			time.Sleep(timeout / 3)
		}
		if replaced {
			u.Add("rounds with a scheduling stall longer than the timeout (contents not judged)", 1)
		} else if len(qa) != 1 {
			t.Fatalf("%s", u.Fail(round, "contents of a live queue were lost"))
		}
		if bClosedAt.IsZero() {
			// stall rule: allow a very generous extra period before calling it "never closed"
			time.Sleep(5 * time.Second)
			select {
			case _, ok := <-qb:
				if ok {
					t.Fatalf("%s", u.Fail(round, "idle queue yields data"))
				}
			default:
				t.Fatalf("%s", u.Fail(round, "queue idle for more than %v was never closed (timeout %v)", 3*timeout+5*time.Second, timeout))
			}
		}
		u.Case(round, true, "real-time round")
	}
}

func init() {
	vstat.Register(vstat.New("C17", "c17_clientmap_rt"), func(t *testing.T, round int) error { return nil })
}

func TestVerifReplay(t *testing.T) { vstat.RunReplays(t) }

// ---------------------------------------------------------------------------
// C20: the real ClientMap (with its own sweeper goroutine) under concurrent SendQueue calls, as the
// server's packet path and carrier loops make them, with a time-out short enough that the sweeper
// wakes many times and expires entries meanwhile. Judged by the race detector (unit c20_clientmap),
// and by its own invariants: no panic, a queue handed out is never a closed one at hand-out time.
func TestVerifC20ClientMap(t *testing.T) {
	u := vstat.New("C20", "c20_clientmap")
	defer u.Flush()
	rounds := vstat.Pick(3, 20)
	for round := 0; round < rounds; round++ {
		timeout := []time.Duration{2 * time.Millisecond, 10 * time.Millisecond, 40 * time.Millisecond}[round%3]
		m := NewClientMap(timeout)
		var wg sync.WaitGroup
		var firstErr atomic.Value
		stopAt := time.Now().Add(300 * time.Millisecond)
		workers := 2 + round%5
		for w := 0; w < workers; w++ {
			wg.Add(1)
			go func(w int) {
				defer wg.Done()
				defer func() {
					if r := recover(); r != nil {
						firstErr.CompareAndSwap(nil, fmt.Sprintf("SendQueue panicked: %v", r))
					}
				}()
				for k := 0; time.Now().Before(stopAt); k++ {
					// a few busy clients, many one-shot ones (they expire while others are looked up)
					name := fmt.Sprintf("busy%d", k%3)
					if k%4 == 0 {
						name = fmt.Sprintf("w%d-once%d", w, k)
					}
					// (only the look-up: with time-outs of milliseconds a send could hit a queue the sweeper
					// has closed meanwhile - the real packet path sends within microseconds of a look-up that
					// has just refreshed a one-minute time-out)
					if q := m.SendQueue(taddr(name)); q == nil {
						firstErr.CompareAndSwap(nil, "SendQueue returned a nil queue")
					}
					if k%64 == 0 {
						time.Sleep(time.Millisecond)
					}
				}
			}(w)
		}
		wg.Wait()
		if e := firstErr.Load(); e != nil {
			t.Fatalf("%s", u.Fail(round, "%s (time-out %v, %d workers)", e.(string), timeout, workers))
		}
		u.Case(round, workers >= 2, fmt.Sprintf("timeout=%v", timeout))
	}
}

func init() {
	vstat.Register(vstat.New("C20", "c20_clientmap"), func(t *testing.T, round int) error { return nil })
}
