//go:build go1.25

// C19 Published broker counts are rounded up to 8 and never too low (broker part).
// C06 (b) the broker rejects proxies whose relay pattern is not a superset of the allowed one.
package main

import (
	"bytes"
	"fmt"
	"net"
	"regexp"
	"strconv"
	"strings"
	"testing"

	"git.torproject.org/pluggable-transports/snowflake.git/v2/common/namematcher"
	"pgregory.net/rapid"
	"verif.local/vstat"
)

func ceil8(n int) int { return (n + 7) / 8 * 8 }

// ---------------------------------------------------------------------------
// (a) binCount

func TestVerifC19BinCount(t *testing.T) {
	u := vstat.New("C19", "c19_bincount")
	defer u.Flush()
	check := func(n uint) error {
		b := binCount(n)
		if b%8 != 0 || b < n || b > n+7 {
			return fmt.Errorf("binCount(%d) = %d: must be the next multiple of 8 at or above the count", n, b)
		}
		return nil
	}
	lim := uint(vstat.Pick(1<<18, 1<<22))
	for n := uint(vstat.Shard()); n <= lim; n += uint(vstat.Shards()) {
		u.Case(n, n%8 != 0)
		if err := check(n); err != nil {
			t.Fatalf("%s", u.Fail(n, "%v", err))
		}
	}
	u.Add("exhaustive_upto", int64(lim))
	rapid.Check(t, func(rt *rapid.T) {
		n := uint(rapid.Uint64Range(0, 1<<40).Draw(rt, "n"))
		u.Case(n, n%8 != 0, "random")
		if err := check(n); err != nil {
			rt.Fatalf("%s", u.Fail(n, "%v", err))
		}
	})
}

func init() {
	vstat.Register(vstat.New("C19", "c19_bincount"), func(t *testing.T, n uint) error {
		b := binCount(n)
		if b%8 != 0 || b < n || b > n+7 {
			return fmt.Errorf("binCount(%d) = %d", n, b)
		}
		return nil
	})
}

// ---------------------------------------------------------------------------
// (b)(c) counters through the real call sites

type countCase struct {
	Sc     scenario `json:"sc"`
	Phase2 []event  `json:"phase2,omitempty"` // events after the period reset
}

var logLine = regexp.MustCompile(`(?m)^([a-z-]+) (\d+)$`)

func parseLog(s string) map[string]int {
	m := map[string]int{}
	for _, g := range logLine.FindAllStringSubmatch(s, -1) {
		n, _ := strconv.Atoi(g[2])
		m[g[1]] = n
	}
	return m
}

func normType(t string) string {
	switch t {
	case "standalone", "webext", "badge", "iptproxy":
		return t
	}
	return "unknown"
}

// truth counted by the harness from the responses it observed
type truth struct {
	prom map[string]int // rounded prometheus counters, by key
	log  map[string]int // *-count lines
	ips  map[string]map[string]bool
}

func newTruth() *truth {
	return &truth{prom: map[string]int{}, log: map[string]int{}, ips: map[string]map[string]bool{}}
}

func (tr *truth) observe(sc *scenario, evs []event, res []result) error {
	for k, e := range evs {
		r := res[k]
		switch e.Kind {
		case "poll":
			if !validNATWire(e.NAT) || e.Sid == "" {
				continue
			}
			if !r.PollDone {
				return fmt.Errorf("poll %q did not complete", e.Sid)
			}
			nat, typ := natOf(e.NAT), normType(e.Type)
			lbl := fmt.Sprintf("{nat=%s,type=%s}", nat, typ)
			if e.Pattern != nil {
				tr.prom["snowflake_rounded_proxy_poll_with_relay_url_extension_total"+lbl]++
				tr.log["snowflake-proxy-poll-with-relay-url-count"]++
			} else {
				tr.prom["snowflake_rounded_proxy_poll_without_relay_url_extension_total"+lbl]++
				tr.log["snowflake-proxy-poll-without-relay-url-count"]++
			}
			switch r.PollStatus {
			case "incorrect relay pattern":
				tr.prom["snowflake_rounded_proxy_poll_rejected_relay_url_extension_total"+lbl]++
				tr.log["snowflake-proxy-rejected-for-relay-url-count"]++
				continue
			case "no match":
				tr.prom[fmt.Sprintf("snowflake_rounded_proxy_poll_total{nat=%s,status=idle}", nat)]++
				tr.log["snowflake-idle-count"]++
			case "client match":
				tr.prom[fmt.Sprintf("snowflake_rounded_proxy_poll_total{nat=%s,status=matched}", nat)]++
			default:
				return fmt.Errorf("poll %q got unexpected status %q (ipc error %q, http %d)", e.Sid, r.PollStatus, r.IPCErr, r.Status)
			}
			remote := e.Remote
			if remote == "" {
				remote = "203.0.113.9:1234"
			}
			if host, _, err := net.SplitHostPort(remote); err == nil {
				if tr.ips[typ] == nil {
					tr.ips[typ] = map[string]bool{}
				}
				tr.ips[typ][host] = true
			}
		case "client":
			if !r.Done {
				return fmt.Errorf("client event did not complete")
			}
			nat := natOf(e.NAT)
			switch {
			case r.AnswerGot != "":
				tr.prom[fmt.Sprintf("snowflake_rounded_client_poll_total{nat=%s,status=matched}", nat)]++
				tr.log["client-snowflake-match-count"]++
			case r.Denied:
				tr.prom[fmt.Sprintf("snowflake_rounded_client_poll_total{nat=%s,status=denied}", nat)]++
				tr.log["client-denied-count"]++
				if nat == "unrestricted" {
					tr.log["client-unrestricted-denied-count"]++
				} else {
					tr.log["client-restricted-denied-count"]++
				}
			}
		}
	}
	return nil
}

var countLines = []string{"snowflake-idle-count", "snowflake-proxy-poll-with-relay-url-count", "snowflake-proxy-poll-without-relay-url-count", "snowflake-proxy-rejected-for-relay-url-count", "client-denied-count", "client-restricted-denied-count", "client-unrestricted-denied-count", "client-snowflake-match-count"}

func comparePublished(what string, ctx *BrokerContext, logText string, prom *truth, period *truth) error {
	got := gather(ctx)
	for key, n := range prom.prom {
		if int(got[key]) != ceil8(n) {
			return fmt.Errorf("%s: prometheus counter %s = %v, true count %d, expected %d", what, key, got[key], n, ceil8(n))
		}
	}
	for key, v := range got {
		if strings.HasPrefix(key, "snowflake_rounded_") {
			if int(v)%8 != 0 {
				return fmt.Errorf("%s: prometheus counter %s = %v is not a multiple of 8", what, key, v)
			}
			if _, ok := prom.prom[key]; !ok && v != 0 {
				return fmt.Errorf("%s: prometheus counter %s = %v although no such event was observed", what, key, v)
			}
		}
	}
	lg := parseLog(logText)
	for _, line := range countLines {
		want := ceil8(period.log[line])
		g, ok := lg[line]
		if !ok {
			return fmt.Errorf("%s: metrics log has no %s line:\n%s", what, line, logText)
		}
		if g != want {
			return fmt.Errorf("%s: metrics log says %s %d, true count %d, expected %d", what, line, g, period.log[line], want)
		}
	}
	total := 0
	for _, typ := range []string{"standalone", "webext", "badge", "iptproxy"} {
		want := len(period.ips[typ])
		total += want
		if g, ok := lg["snowflake-ips-"+typ]; !ok || g != want {
			return fmt.Errorf("%s: metrics log says snowflake-ips-%s %d (present=%v), distinct addresses of that type: %d", what, typ, g, ok, want)
		}
	}
	total += len(period.ips["unknown"])
	if g := lg["snowflake-ips-total"]; g != total {
		return fmt.Errorf("%s: metrics log says snowflake-ips-total %d, distinct (address,type) pairs: %d", what, g, total)
	}
	return nil
}

func runCounts(t *testing.T, c countCase) error {
	var logBuf bytes.Buffer
	ctx, err := newContext(&c.Sc, &logBuf)
	if err != nil {
		return err
	}
	h := runScenario(t, ctx, &c.Sc, nil)
	if err := checkBounded(h); err != nil {
		return err
	}
	prom, period1 := newTruth(), newTruth()
	if err := prom.observe(&c.Sc, c.Sc.Events, h.Res); err != nil {
		return err
	}
	period1.observe(&c.Sc, c.Sc.Events, h.Res)
	// the three fresh canary clients of the engine are denied too
	for _, nat := range []string{"unknown", "restricted", "unrestricted"} {
		for _, tr := range []*truth{prom, period1} {
			tr.prom[fmt.Sprintf("snowflake_rounded_client_poll_total{nat=%s,status=denied}", nat)]++
			tr.log["client-denied-count"]++
			if nat == "unrestricted" {
				tr.log["client-unrestricted-denied-count"]++
			} else {
				tr.log["client-restricted-denied-count"]++
			}
		}
	}
	ctx.metrics.printMetrics()
	if err := comparePublished("first period", ctx, logBuf.String(), prom, period1); err != nil {
		return err
	}
	ctx.metrics.zeroMetrics()
	logBuf.Reset()
	sc2 := scenario{Bridges: c.Sc.Bridges, Allowed: c.Sc.Allowed, Presumed: c.Sc.Presumed, Events: c.Phase2}
	h2 := runScenario(t, ctx, &sc2, nil)
	if err := checkBounded(h2); err != nil {
		return err
	}
	period2 := newTruth()
	if err := period2.observe(&sc2, sc2.Events, h2.Res); err != nil {
		return err
	}
	prom.observe(&sc2, sc2.Events, h2.Res)
	for _, nat := range []string{"unknown", "restricted", "unrestricted"} {
		for _, tr := range []*truth{prom, period2} {
			tr.prom[fmt.Sprintf("snowflake_rounded_client_poll_total{nat=%s,status=denied}", nat)]++
			tr.log["client-denied-count"]++
			if nat == "unrestricted" {
				tr.log["client-unrestricted-denied-count"]++
			} else {
				tr.log["client-restricted-denied-count"]++
			}
		}
	}
	ctx.metrics.printMetrics()
	return comparePublished("second period (after reset)", ctx, logBuf.String(), prom, period2)
}

var remotes = []string{"203.0.113.9:1234", "203.0.113.9:999", "198.51.100.7:1", "[2001:db8::5]:443", "192.0.2.44:5", "192.0.2.45:5", "no-port", ""}

func genCountEvents(t *rapid.T, n int, sidBase int, burst bool) []event {
	var evs []event
	cid := 0
	for i := 0; i < n; i++ {
		at := int64(i) * 3 * sec // sequential: pairwise distinct instants, never on another event's 10 s boundary
		if burst {
			at = int64(rapid.IntRange(0, 2).Draw(t, "slot")) * 11 * sec
		}
		switch rapid.IntRange(0, 9).Draw(t, "kind") {
		case 0, 1, 2, 3, 4, 5:
			e := genPollEvent(t, at, fmt.Sprintf("p%d", sidBase+i))
			e.AnsMode = rapid.SampledFrom([]string{"prompt", "prompt", "never"}).Draw(t, "ans")
			e.Remote = rapid.SampledFrom(remotes).Draw(t, "remote")
			switch rapid.IntRange(0, 3).Draw(t, "pat") {
			case 0:
				e.Pattern = nil
			case 1:
				e.Pattern = strp("snowflake.torproject.net$")
			default:
				e.Pattern = strp("")
			}
			evs = append(evs, e)
		default:
			cid++
			e := genClientEvent(t, at+rapid.SampledFrom([]int64{0, 1, sec}).Draw(t, "coff"), sidBase*1000+cid)
			evs = append(evs, e)
		}
	}
	return evs
}

var uCounts = vstat.New("C19", "c19_counters")

func init() { vstat.Register(uCounts, runCounts) }

func TestVerifC19Counters(t *testing.T) {
	defer uCounts.Flush()
	wedgeUnit = uCounts
	rapid.Check(t, func(rt *rapid.T) {
		var c countCase
		burst := rapid.IntRange(0, 2).Draw(rt, "burst") == 0
		if rapid.Bool().Draw(rt, "patterncfg") {
			c.Sc.Allowed = "snowflake.torproject.net$"
			c.Sc.Presumed = rapid.SampledFrom([]string{"", "torproject.net$", "^snowflake.torproject.net$"}).Draw(rt, "presumed")
		}
		c.Sc.Events = genCountEvents(rt, rapid.IntRange(1, 40).Draw(rt, "n1"), 0, burst)
		c.Phase2 = genCountEvents(rt, rapid.IntRange(0, 12).Draw(rt, "n2"), 100, burst)
		labelSets := map[string]bool{}
		for _, e := range c.Sc.Events {
			if e.Kind == "poll" {
				labelSets[natOf(e.NAT)+"/"+normType(e.Type)] = true
			}
		}
		labels := []string{}
		if burst {
			labels = append(labels, "concurrent bursts")
		} else {
			labels = append(labels, "sequential")
		}
		nt := len(labelSets) >= 2 && len(c.Sc.Events)%8 != 0
		uCounts.Journal(c)
		vstat.Run(uCounts, t, rt, c, nt, labels, runCounts)
	})
	uCounts.JournalDone()
}

// ---------------------------------------------------------------------------
// C06 (b) poll-time rejection

type patCase struct {
	Allowed  string  `json:"allowed"`
	Presumed string  `json:"presumed"`
	Pattern  *string `json:"pattern"` // nil = legacy proxy
	Door     string  `json:"door"`
	Hosts    []string `json:"hosts"`
}

func runPattern(t *testing.T, c patCase) (retErr error) {
	sc := scenario{Allowed: c.Allowed, Presumed: c.Presumed, Events: []event{
		{At: 0, Kind: "poll", Sid: "p", NAT: strp("unrestricted"), Type: "standalone", Pattern: c.Pattern, Door: c.Door, AnsMode: "prompt"},
		{At: sec, Kind: "http", Method: "GET", Path: "/debug"},
		{At: 2 * sec, Kind: "client", Offer: "{\"o\":1}", NAT: strp("restricted"), Door: "ipc"},
	}}
	ctx, err := cachedContext(&sc)
	if err != nil {
		return err
	}
	defer dropIfErr(&sc, &retErr)
	h := runScenario(t, ctx, &sc, nil)
	if err := checkBounded(h); err != nil {
		return err
	}
	eff := c.Presumed
	if c.Pattern != nil {
		eff = *c.Pattern
	}
	pm, am := namematcher.NewNameMatcher(eff), namematcher.NewNameMatcher(c.Allowed)
	poll, dbg, cl := h.Res[0], h.Res[1], h.Res[2]
	rejected := poll.PollStatus == "incorrect relay pattern"
	// semantic judgement: a witness hostname accepted by the allowed pattern and refused by the proxy's
	for _, host := range c.Hosts {
		if am.IsMember(host) && !pm.IsMember(host) {
			if !rejected {
				return fmt.Errorf("allowed pattern %q accepts hostname %q which the proxy's effective pattern %q rejects, yet the poll was not rejected (status %q)", c.Allowed, host, eff, poll.PollStatus)
			}
		}
	}
	if rejected {
		if poll.End-poll.Start != 0 {
			return fmt.Errorf("rejection took %s, expected an immediate response", dur(poll.End-poll.Start))
		}
		if !strings.HasPrefix(string(dbg.Raw), "current snowflakes available: 0\n") {
			return fmt.Errorf("rejected proxy shows up in /debug: %q", firstLine(string(dbg.Raw)))
		}
		if !cl.Denied {
			return fmt.Errorf("proxy was rejected for its pattern, yet a compatible client was not told 'no proxies': answer=%q err=%q", cl.AnswerGot, cl.ErrGot)
		}
	} else {
		// accepted: the superset law on the sampled hostnames
		for _, host := range c.Hosts {
			if am.IsMember(host) && !pm.IsMember(host) {
				return fmt.Errorf("accepted poll with effective pattern %q does not cover hostname %q of the allowed pattern %q", eff, host, c.Allowed)
			}
		}
		if cl.AnswerGot == "" {
			return fmt.Errorf("poll with effective pattern %q was accepted (allowed %q) but the waiting client was not matched: %q", eff, c.Allowed, cl.ErrGot)
		}
	}
	return checkNoGhosts(h)
}

var patPool = []string{"", "$", "^$", "snowflake.torproject.net$", "^snowflake.torproject.net$", "torproject.net$", ".torproject.net$", "net$", "flake.torproject.net$", "^01.snowflake.torproject.net$", "example.com$", "^torproject.net$", "snowflake.torproject.net", "xsnowflake.torproject.net$"}

var uPat = vstat.New("C06", "c06_broker_reject")

func init() { vstat.Register(uPat, runPattern) }

func TestVerifC06BrokerReject(t *testing.T) {
	defer uPat.Flush()
	wedgeUnit = uPat
	rapid.Check(t, func(rt *rapid.T) {
		c := patCase{Allowed: rapid.SampledFrom(patPool).Draw(rt, "allowed"), Presumed: rapid.SampledFrom(patPool).Draw(rt, "presumed")}
		switch rapid.IntRange(0, 3).Draw(rt, "pkind") {
		case 0:
			c.Pattern = nil
		default:
			c.Pattern = strp(rapid.SampledFrom(patPool).Draw(rt, "pattern"))
		}
		c.Door = rapid.SampledFrom([]string{"ipc", "http"}).Draw(rt, "door")
		// construct members of the allowed pattern
		base := strings.TrimPrefix(strings.TrimSuffix(c.Allowed, "$"), "^")
		c.Hosts = []string{base, "a" + base, "01." + base, "x.y." + base, "snowflake.torproject.net", "evil.example.com", ""}
		eff := c.Presumed
		if c.Pattern != nil {
			eff = *c.Pattern
		}
		eb := strings.TrimPrefix(strings.TrimSuffix(eff, "$"), "^")
		nt := eff != c.Allowed && eb != "" && base != "" && (strings.HasSuffix(eb, base) || strings.HasSuffix(base, eb))
		labels := []string{}
		if c.Pattern == nil {
			labels = append(labels, "legacy proxy (presumed pattern)")
		}
		uPat.Journal(c)
		vstat.Run(uPat, t, rt, c, nt, labels, runPattern)
	})
	uPat.JournalDone()
}

func dropIfErr(sc *scenario, err *error) {
	if *err != nil {
		dropContext(sc)
	}
}
