//go:build go1.25

// C14 Every HTTP request to the broker gets a well-formed response.
// C11 (b) the AMP endpoint answers exactly like the POST endpoint.
package main

import (
	"bytes"
	"encoding/json"
	"fmt"
	"io"
	"net/http"
	"strings"
	"sync"
	"sync/atomic"
	"testing"
	"time"

	"git.torproject.org/pluggable-transports/snowflake.git/v2/common/amp"
	"git.torproject.org/pluggable-transports/snowflake.git/v2/common/messages"
	"pgregory.net/rapid"
	"verif.local/vstat"
)

var routes = []string{"/proxy", "/client", "/answer", "/amp/client/", "/debug", "/metrics", "/prometheus", "/robots.txt"}

func validBodies() map[string][]byte {
	poll, _ := messages.EncodeProxyPollRequestWithRelayPrefix("sid-x", "standalone", "unrestricted", 0, "")
	ans, _ := messages.EncodeAnswerRequest("an answer", "sid-x")
	cl, _ := (&messages.ClientPollRequest{Offer: "an offer", NAT: "restricted"}).EncodeClientPollRequest()
	unl, _ := (&messages.ClientPollRequest{Offer: "an offer", NAT: "restricted", Fingerprint: "FFFFFFFFFFFFFFFFFFFFFFFFFFFFFFFFFFFFFFFF"}).EncodeClientPollRequest()
	unl32, _ := (&messages.ClientPollRequest{Offer: "an offer", NAT: "unknown", Fingerprint: goodFP32}).EncodeClientPollRequest()
	return map[string][]byte{"poll": poll, "answer": ans, "client": cl, "legacy": []byte("{\"type\":\"offer\",\"sdp\":\"legacy\"}"),
		"client-unlisted-bridge": unl, "client-unlisted-bridge32": unl32}
}

func mutateBody(t *rapid.T, b []byte) []byte {
	b = append([]byte{}, b...)
	switch rapid.IntRange(0, 5).Draw(t, "mut") {
	case 0:
		return b[:rapid.IntRange(0, len(b)).Draw(t, "trunc")]
	case 1:
		if len(b) > 0 {
			b[rapid.IntRange(0, len(b)-1).Draw(t, "pos")] = rapid.Byte().Draw(t, "val")
		}
		return b
	case 2:
		// a member of another JSON type
		s := string(b)
		if i := strings.Index(s, ":\""); i >= 0 {
			if j := strings.Index(s[i+2:], "\""); j >= 0 {
				return []byte(s[:i+1] + rapid.SampledFrom([]string{"7", "null", "[]", "{}", "true"}).Draw(t, "jtype") + s[i+2+j+1:])
			}
		}
		return b
	case 3:
		// extra member
		s := string(b)
		if i := strings.LastIndex(s, "}"); i >= 0 {
			return []byte(s[:i] + ",\"extra\":[1,2,3]" + s[i:])
		}
		return b
	case 4:
		return append(b, b...)
	default:
		return append([]byte(rapid.SampledFrom([]string{"2.0\n", "1.0\n", "\n", "1.0", "{"}).Draw(t, "prefix")), b...)
	}
}

func genBody(t *rapid.T) ([]byte, string) {
	vb := validBodies()
	keys := []string{"poll", "answer", "client", "legacy", "client-unlisted-bridge", "client-unlisted-bridge32", "client"}
	switch rapid.IntRange(0, 9).Draw(t, "bodykind") {
	case 0, 1, 2:
		k := rapid.SampledFrom(keys).Draw(t, "valid")
		return vb[k], "valid " + k
	case 3, 4, 5:
		k := rapid.SampledFrom(keys).Draw(t, "mutated")
		return mutateBody(t, vb[k]), "mutated"
	case 6:
		return rapid.SliceOfN(rapid.Byte(), 0, 200).Draw(t, "random"), "random"
	case 7:
		// sizes around the 100 000 byte limit; legacy-looking or versioned-looking
		n := rapid.SampledFrom([]int{99999, 100000, 100001, 1 << 20}).Draw(t, "size")
		var b []byte
		if rapid.Bool().Draw(t, "legacybig") {
			b = append([]byte("{\"sdp\":\""), bytes.Repeat([]byte("x"), n)...)
			b = append(b[:n-2], '"', '}')
		} else {
			pre := []byte("1.0\n{\"offer\":\"")
			b = append(pre, bytes.Repeat([]byte("y"), n)...)
			b = append(b[:n-2], '"', '}')
		}
		return b, "size limit"
	case 8:
		return nil, "empty"
	default:
		return []byte(rapid.SampledFrom([]string{"{", "{}", "[]", "null", "{\"type\":\"offer\"}", "1.0\n{}", "1.0\nnull", "{\"Sid\":\"\",\"Version\":\"1.0\"}", "{\"Sid\":\"s\",\"Version\":\"9.9\"}"}).Draw(t, "shape")), "shape"
	}
}

func genHTTPEvent(t *rapid.T, at int64) (event, string) {
	e := event{At: at, Kind: "http"}
	e.Method = rapid.SampledFrom([]string{"POST", "POST", "POST", "GET", "GET", "OPTIONS", "HEAD", "PUT", "DELETE", "JUNK"}).Draw(t, "method")
	route := rapid.SampledFrom(routes).Draw(t, "route")
	suffix := rapid.SampledFrom([]string{"", "", "", "/", "/x", "?q=1", "/../proxy", "%20", "//"}).Draw(t, "suffix")
	if route == "/amp/client/" {
		switch rapid.IntRange(0, 4).Draw(t, "amppath") {
		case 0:
			suffix = amp.EncodePath(validBodies()["client"])
		case 1:
			suffix = amp.EncodePath(mutateBody(t, validBodies()["client"]))
		case 2:
			suffix = "0" + rapid.StringMatching(`[A-Za-z0-9_/=-]{0,30}`).Draw(t, "ampjunk")
		case 3:
			suffix = amp.EncodePath(bytes.Repeat([]byte("z"), rapid.SampledFrom([]int{5000, 80000}).Draw(t, "ampbig")))
		}
	}
	e.Path = route + suffix
	e.Headers = map[string]string{}
	if rapid.Bool().Draw(t, "nathdr") {
		e.Headers["Snowflake-NAT-Type"] = rapid.SampledFrom([]string{"unknown", "restricted", "unrestricted", "", "bogus", "Unknown", strings.Repeat("n", 5000), "restricted\x7f"}).Draw(t, "nat")
	}
	if rapid.IntRange(0, 3).Draw(t, "ct") == 0 {
		e.Headers["Content-Type"] = rapid.SampledFrom([]string{"application/json", "text/plain", "multipart/form-data", ""}).Draw(t, "ctv")
	}
	if rapid.IntRange(0, 5).Draw(t, "origin") == 0 {
		e.Headers["Origin"] = "https://example.com"
	}
	var lbl string
	e.Body, lbl = genBody(t)
	if rapid.IntRange(0, 2).Draw(t, "matchroute") != 0 {
		// most bodies go to the route that parses them, with POST, so that the handlers' logic is reached
		switch {
		case strings.HasPrefix(lbl, "valid client") || lbl == "valid legacy" || lbl == "mutated" && bytes.HasPrefix(e.Body, []byte("1.0")):
			e.Method, e.Path = "POST", "/client"
		case lbl == "valid answer":
			e.Method, e.Path = "POST", "/answer"
		case lbl == "valid poll":
			e.Method, e.Path = "POST", "/proxy"
		}
	}
	e.Remote = rapid.SampledFrom([]string{"203.0.113.9:1234", "[2001:db8::1]:443", "not-an-address", ""}).Draw(t, "remote")
	if rapid.IntRange(0, 3).Draw(t, "chunked") == 0 {
		e.Chunked = true
		lbl += ", length not announced"
	}
	return e, lbl
}

func checkHTTP(h *history) error {
	if err := checkBounded(h); err != nil {
		return err
	}
	for k, e := range h.Sc.Events {
		if e.Kind != "http" {
			continue
		}
		r := h.Res[k]
		if r.Status < 100 || r.Status > 599 {
			return fmt.Errorf("event #%d: %s %s answered with status %d", k, e.Method, clipS(e.Path), r.Status)
		}
	}
	return checkNoGhosts(h)
}

func runC14(t *testing.T, sc scenario) error {
	sc.Reps = 1
	// canaries: issued after the sequence, inside the same broker
	var canErr error
	ctx, err := cachedContext(&sc)
	if err != nil {
		return err
	}
	defer func() {
		if canErr != nil {
			dropContext(&sc)
		}
	}()
	h := runScenario(t, ctx, &sc, func(ctx *BrokerContext, mux http.Handler) {
		rec, pan := serve(mux, "GET", "/robots.txt", nil, nil, "")
		if pan != "" || rec.Code != 200 || rec.Body.String() != "User-agent: *\nDisallow: /\n" {
			canErr = fmt.Errorf("canary /robots.txt after the sequence: status %d body %q panic %q", rec.Code, rec.Body.String(), pan)
			return
		}
		rec, pan = serve(mux, "GET", "/debug", nil, nil, "")
		if pan != "" || rec.Code != 200 || !strings.HasPrefix(rec.Body.String(), "current snowflakes available: 0\n") {
			canErr = fmt.Errorf("canary /debug after the sequence: status %d body %q panic %q", rec.Code, firstLine(rec.Body.String()), pan)
			return
		}
		rec, pan = serve(mux, "GET", "/prometheus", nil, nil, "")
		if pan != "" || rec.Code != 200 || !strings.Contains(rec.Body.String(), "snowflake_") {
			canErr = fmt.Errorf("canary /prometheus after the sequence: status %d panic %q", rec.Code, pan)
		}
	})
	if err := checkHTTP(h); err != nil {
		dropContext(&sc)
		return err
	}
	return canErr
}

var uC14 = vstat.New("C14", "c14_http")

func init() { vstat.Register(uC14, runC14) }

func TestVerifC14HTTP(t *testing.T) {
	defer uC14.Flush()
	wedgeUnit = uC14
	rapid.Check(t, func(rt *rapid.T) {
		var sc scenario
		var labels []string
		n := rapid.IntRange(1, 30).Draw(rt, "nreq")
		sid := 0
		nt := false
		for i := 0; i < n; i++ {
			at := rapid.SampledFrom([]int64{0, 0, 1, sec, 2 * sec, 5 * sec, 10 * sec, 11 * sec}).Draw(rt, "at")
			if rapid.IntRange(0, 5).Draw(rt, "realpoll") == 0 {
				sid++
				e := genPollEvent(rt, at, fmt.Sprintf("p%d", sid))
				e.NAT = strp("unrestricted")
				sc.Events = append(sc.Events, e)
				continue
			}
			e, lbl := genHTTPEvent(rt, at)
			labels = append(labels, "body="+lbl, "route="+strings.SplitN(e.Path[1:]+"/", "/", 2)[0])
			if lbl == "mutated" || lbl == "size limit" || lbl == "valid legacy" {
				nt = true
			}
			sc.Events = append(sc.Events, e)
		}
		uC14.Journal(sc)
		vstat.Run(uC14, t, rt, sc, nt, dedup(labels), runC14)
	})
	uC14.JournalDone()
}

func dedup(l []string) []string {
	seen := map[string]bool{}
	var out []string
	for _, s := range l {
		if !seen[s] {
			seen[s] = true
			out = append(out, s)
		}
	}
	return out
}

// ---------------------------------------------------------------------------
// legacy request == versioned equivalent (differential)

type legacyCase struct {
	Offer     string  `json:"offer"` // starts with '{'
	NAT       *string `json:"nat"`   // Snowflake-NAT-Type header; nil = header absent
	Proxy     string  `json:"proxy"` // none | answers | silent
	ProxyNAT  string  `json:"proxynat"`
}

func runLegacy(t *testing.T, c legacyCase) error {
	build := func(door string) scenario {
		var sc scenario
		if c.Proxy != "none" {
			mode := "prompt"
			if c.Proxy == "silent" {
				mode = "never"
			}
			sc.Events = append(sc.Events, event{At: 0, Kind: "poll", Sid: "p", NAT: strp(c.ProxyNAT), Type: "standalone", Pattern: strp(""), Door: "http", AnsMode: mode})
		}
		sc.Events = append(sc.Events, event{At: sec, Kind: "client", Offer: c.Offer, NAT: c.NAT, Door: door})
		return sc
	}
	var hs [2]*history
	for n, door := range []string{"legacy", "post"} {
		sc := build(door)
		ctx, err := cachedContext(&sc)
		if err != nil {
			return err
		}
		hs[n] = runScenario(t, ctx, &sc, nil)
		if err := checkBounded(hs[n]); err != nil {
			dropContext(&sc)
			return fmt.Errorf("%s request: %v", door, err)
		}
		if err := checkNoGhosts(hs[n]); err != nil {
			dropContext(&sc)
			return fmt.Errorf("%s request: %v", door, err)
		}
	}
	ci := len(hs[0].Res) - 1
	lg, vs := hs[0].Res[ci], hs[1].Res[ci]
	desc := fmt.Sprintf("legacy: http %d body %q | versioned: http %d body %q", lg.Status, clipS(string(lg.Raw)), vs.Status, clipS(string(vs.Raw)))
	switch {
	case vs.AnswerGot != "":
		if lg.Status != 200 || string(lg.Raw) != vs.AnswerGot {
			return fmt.Errorf("versioned request got an answer, the legacy request did not get the same answer with status 200; %s", desc)
		}
	case vs.Denied:
		if lg.Status != 503 {
			return fmt.Errorf("versioned request was told 'no proxies', the legacy request must get 503; %s", desc)
		}
	case vs.TimedOut:
		if lg.Status != 504 {
			return fmt.Errorf("versioned request timed out, the legacy request must get 504; %s", desc)
		}
	default:
		if lg.Status < 400 {
			return fmt.Errorf("versioned request failed (%s), the legacy request must fail with a 4xx/5xx status; %s", vs.ErrGot, desc)
		}
	}
	if c.Proxy != "none" {
		pl, pv := hs[0].Res[0], hs[1].Res[0]
		if pl.PollStatus != pv.PollStatus || pl.Offer != pv.Offer || pl.ClientNAT != pv.ClientNAT || pl.RelayURL != pv.RelayURL {
			return fmt.Errorf("the proxy saw different things: legacy (%q, offer %q, nat %q) vs versioned (%q, offer %q, nat %q)", pl.PollStatus, clipS(pl.Offer), pl.ClientNAT, pv.PollStatus, clipS(pv.Offer), pv.ClientNAT)
		}
	}
	return nil
}

var uLegacy = vstat.New("C14", "c14_legacy")

func init() { vstat.Register(uLegacy, runLegacy) }

func TestVerifC14Legacy(t *testing.T) {
	defer uLegacy.Flush()
	wedgeUnit = uLegacy
	rapid.Check(t, func(rt *rapid.T) {
		var c legacyCase
		noise := strings.ToValidUTF8(rapid.OneOf(rapid.SampledFrom([]string{"v=0", "", "\"", "\n"}), rapid.StringN(0, 20, -1)).Draw(rt, "noise"), "?")
		c.Offer = fmt.Sprintf("{\"type\":\"offer\",\"sdp\":%q}", noise)
		if rapid.IntRange(0, 9).Draw(rt, "rawbrace") == 0 {
			c.Offer = "{" + noise
		}
		c.NAT = rapid.SampledFrom([]*string{nil, strp(""), strp("unknown"), strp("restricted"), strp("unrestricted"), strp("bogus"), strp("Restricted"), strp("unrestricted ")}).Draw(rt, "nat")
		c.Proxy = rapid.SampledFrom([]string{"none", "answers", "answers", "silent"}).Draw(rt, "proxy")
		c.ProxyNAT = rapid.SampledFrom([]string{"unrestricted", "unrestricted", "restricted", "unknown"}).Draw(rt, "proxynat")
		uLegacy.Journal(c)
		vstat.Run(uLegacy, t, rt, c, true, []string{"proxy=" + c.Proxy, "nat=" + natLabel(c.NAT)}, runLegacy)
	})
	uLegacy.JournalDone()
}

func natLabel(p *string) string {
	if p == nil {
		return "<absent>"
	}
	if len(*p) > 14 {
		return "<long>"
	}
	return *p
}

// ---------------------------------------------------------------------------
// C11 (b): AMP endpoint == POST endpoint for the same poll in the same broker state

type ampCase struct {
	Body  []byte `json:"body"`  // encoded client poll (valid or not)
	Proxy string `json:"proxy"` // none | answers | silent
	Path  string `json:"path,omitempty"` // if set: raw path suffix instead of EncodePath(Body)
}

func runAMPEquiv(t *testing.T, c ampCase) error {
	var bodies [2][]byte // decoded JSON: [amp, post]
	for n, door := range []string{"amp", "post"} {
		var sc scenario
		if c.Proxy != "none" {
			mode := "prompt"
			if c.Proxy == "silent" {
				mode = "never"
			}
			sc.Events = append(sc.Events, event{At: 0, Kind: "poll", Sid: "p", NAT: strp("unrestricted"), Type: "webext", Pattern: strp(""), Door: "ipc", AnsMode: mode})
		}
		if door == "amp" {
			p := c.Path
			if p == "" {
				p = amp.EncodePath(c.Body)
			}
			sc.Events = append(sc.Events, event{At: sec, Kind: "http", Method: "GET", Path: "/amp/client/" + p})
		} else {
			sc.Events = append(sc.Events, event{At: sec, Kind: "http", Method: "POST", Path: "/client", Body: c.Body})
		}
		ctx, err := cachedContext(&sc)
		if err != nil {
			return err
		}
		h := runScenario(t, ctx, &sc, nil)
		if err := checkBounded(h); err != nil {
			dropContext(&sc)
			return fmt.Errorf("%s door: %v", door, err)
		}
		if err := checkNoGhosts(h); err != nil {
			dropContext(&sc)
			return fmt.Errorf("%s door: %v", door, err)
		}
		r := h.Res[len(h.Res)-1]
		if door == "amp" {
			if r.Status != 200 {
				bodies[n] = []byte(fmt.Sprintf("<http %d>", r.Status))
				continue
			}
			dec, err := amp.NewArmorDecoder(bytes.NewReader(r.Raw))
			if err != nil {
				return fmt.Errorf("AMP endpoint returned a document that does not de-armor: %v (%q)", err, clipS(string(r.Raw)))
			}
			b, err := io.ReadAll(dec)
			if err != nil {
				return fmt.Errorf("AMP endpoint returned a document that does not de-armor: %v", err)
			}
			bodies[n] = b
		} else {
			if r.Status != 200 {
				bodies[n] = []byte(fmt.Sprintf("<http %d>", r.Status))
			} else {
				bodies[n] = r.Raw
			}
		}
	}
	if c.Path != "" {
		// undecodable path: the AMP endpoint must still produce an armored error response
		var resp messages.ClientPollResponse
		if json.Unmarshal(bodies[0], &resp) != nil || (resp.Error == "" && resp.Answer == "") {
			return fmt.Errorf("AMP endpoint with path %q returned %q; expected an armored poll response", c.Path, clipS(string(bodies[0])))
		}
		return nil
	}
	if !bytes.Equal(bodies[0], bodies[1]) {
		return fmt.Errorf("AMP endpoint returned %q, POST endpoint returned %q for the same poll %q (proxy %s)", clipS(string(bodies[0])), clipS(string(bodies[1])), clipS(string(c.Body)), c.Proxy)
	}
	return nil
}

var uAMP = vstat.New("C11", "c11_ampequiv")

func init() { vstat.Register(uAMP, runAMPEquiv) }

func TestVerifC11AMPEquiv(t *testing.T) {
	defer uAMP.Flush()
	wedgeUnit = uAMP
	rapid.Check(t, func(rt *rapid.T) {
		var c ampCase
		valid := validBodies()["client"]
		labels := []string{}
		switch rapid.IntRange(0, 5).Draw(rt, "kind") {
		case 0, 1:
			nat := rapid.SampledFrom([]string{"unknown", "restricted", "unrestricted", ""}).Draw(rt, "nat")
			offer := strings.ToValidUTF8(rapid.OneOf(rapid.SampledFrom([]string{"offer", "{\"sdp\":1}", "\""}), rapid.StringN(1, 30, -1)).Draw(rt, "offer"), "?")
			fp := rapid.SampledFrom([]string{"", defaultBridgeFP, "FFFFFFFFFFFFFFFFFFFFFFFFFFFFFFFFFFFFFFFF", "zz"}).Draw(rt, "fp")
			c.Body, _ = (&messages.ClientPollRequest{Offer: offer, NAT: nat, Fingerprint: fp}).EncodeClientPollRequest()
			labels = append(labels, "valid poll")
		case 2, 3:
			c.Body = mutateBody(rt, valid)
			labels = append(labels, "invalid poll")
		case 4:
			c.Body = rapid.SliceOfN(rapid.Byte(), 0, 100).Draw(rt, "random")
			labels = append(labels, "random poll")
		default:
			c.Path = rapid.SampledFrom([]string{"", "1/AAAA", "0AAAA", "0/!!!", "x", "0/"}).Draw(rt, "badpath")
			if c.Path == "" {
				c.Path = "1"
			}
			labels = append(labels, "undecodable path")
		}
		if c.Body == nil {
			c.Body = []byte{}
		}
		if len(c.Body) > 0 && c.Body[0] == '{' {
			// POST /client takes a body starting with '{' for a legacy offer (by design, see C14);
			// that is not "the same poll" any more
			c.Body[0] = '['
		}
		c.Proxy = rapid.SampledFrom([]string{"none", "answers", "answers", "silent"}).Draw(rt, "proxy")
		labels = append(labels, "proxy="+c.Proxy)
		uAMP.Journal(c)
		vstat.Run(uAMP, t, rt, c, true, labels, runAMPEquiv)
	})
	uAMP.JournalDone()
}

// ---------------------------------------------------------------------------
// C20: real-time concurrent load through the real handlers (no fake clock), for the race
// detector: every poll is matched promptly so nothing waits for a 10 s timeout.
func TestVerifC20BrokerLoad(t *testing.T) {
	u := vstat.New("C20", "c20_broker_load")
	defer u.Flush()
	sc := scenario{}
	ctx, err := newContext(&sc, &bytes.Buffer{})
	if err != nil {
		t.Fatal(err)
	}
	go ctx.Broker()
	mux := newMux(ctx)
	rounds := vstat.Pick(6, 40)
	for round := 0; round < rounds; round++ {
		n := 24
		var wg sync.WaitGroup
		var inflight, maxInflight int64
		for k := 0; k < n; k++ {
			wg.Add(2)
			sid := fmt.Sprintf("r%d-p%d", round, k)
			go func() { // proxy: poll, then answer
				defer wg.Done()
				cur := atomic.AddInt64(&inflight, 1)
				for {
					m := atomic.LoadInt64(&maxInflight)
					if cur <= m || atomic.CompareAndSwapInt64(&maxInflight, m, cur) {
						break
					}
				}
				defer atomic.AddInt64(&inflight, -1)
				body, _ := messages.EncodeProxyPollRequestWithRelayPrefix(sid, "standalone", "unrestricted", 0, "")
				rec, _ := serve(mux, "POST", "/proxy", nil, body, fmt.Sprintf("203.0.%d.%d:1", round%200, k))
				var pr messages.ProxyPollResponse
				if json.Unmarshal(rec.Body.Bytes(), &pr) == nil && pr.Status == "client match" {
					ab, _ := messages.EncodeAnswerRequest("answer-"+sid, sid)
					serve(mux, "POST", "/answer", nil, ab, "")
				}
			}()
			go func() { // client, retried until matched (a poll may not be registered yet)
				defer wg.Done()
				for try := 0; try < 200; try++ {
					cb, _ := (&messages.ClientPollRequest{Offer: "offer-" + sid, NAT: "restricted"}).EncodeClientPollRequest()
					rec, _ := serve(mux, "POST", "/client", nil, cb, "")
					if strings.Contains(rec.Body.String(), "answer") {
						return
					}
					time.Sleep(time.Millisecond)
				}
			}()
		}
		// metrics readers in parallel
		wg.Add(1)
		go func() {
			defer wg.Done()
			serve(mux, "GET", "/prometheus", nil, nil, "")
			serve(mux, "GET", "/debug", nil, nil, "")
			// what the broker's own logMetrics goroutine does every 24 h, concurrently with requests
			ctx.metrics.printMetrics()
			ctx.metrics.zeroMetrics()
		}()
		wg.Wait()
		u.Case(round, maxInflight >= 2, fmt.Sprintf("max concurrent requests=%d", maxInflight))
	}
}

func init() {
	vstat.Register(vstat.New("C20", "c20_broker_load"), func(t *testing.T, round int) error { return nil })
}
