//go:build go1.25

// C19 (concurrent part): the rounded Prometheus counter under concurrent increments. The
// counter is read while increments are in flight; what it publishes must lie between
// ceil8(number of increments that had RETURNED before the read started) and
// ceil8(number of increments that had been STARTED when the read ended), be a multiple of 8
// and never decrease; after all goroutines joined it equals ceil8(total) exactly.
package main

import (
	"fmt"
	"sync"
	"sync/atomic"
	"testing"

	"github.com/prometheus/client_golang/prometheus"
	dto "github.com/prometheus/client_model/go"
	"pgregory.net/rapid"
	"verif.local/vstat"
)

type roundedCase struct {
	Writers []int `json:"writers"` // per writer goroutine: number of increments
	Label   []int `json:"label"`   // per writer goroutine: which label combination (0..2)
	Readers int   `json:"readers"` // concurrent scrapers per label combination
}

var roundedLabels = []prometheus.Labels{{"nat": "restricted", "status": "matched"}, {"nat": "unrestricted", "status": "matched"}, {"nat": "unknown", "status": "idle"}}

func readRounded(c RoundedCounter) (uint64, error) {
	var m dto.Metric
	if err := c.Write(&m); err != nil {
		return 0, err
	}
	v := m.GetCounter().GetValue()
	if v < 0 || v != float64(uint64(v)) {
		return 0, fmt.Errorf("counter publishes %v, not a non-negative integer", v)
	}
	return uint64(v), nil
}

func runRounded(_ *testing.T, c roundedCase) error {
	vec := NewRoundedCounterVec(prometheus.CounterOpts{Namespace: "snowflake", Name: "rounded_proxy_poll_total", Help: "x"}, []string{"nat", "status"})
	var started, completed [3]atomic.Uint64
	var firstErr atomic.Value
	fail := func(format string, a ...any) { firstErr.CompareAndSwap(nil, fmt.Sprintf(format, a...)) }
	stop := make(chan struct{})
	var rwg, wwg sync.WaitGroup
	for l := 0; l < 3; l++ {
		for r := 0; r < c.Readers; r++ {
			rwg.Add(1)
			go func(l int) {
				defer rwg.Done()
				ctr := vec.With(roundedLabels[l])
				var last uint64
				for {
					select {
					case <-stop:
						return
					default:
					}
					done := completed[l].Load()
					v, err := readRounded(ctr)
					begun := started[l].Load()
					if err != nil {
						fail("%v", err)
						return
					}
					if v%8 != 0 {
						fail("label set %d: the counter publishes %d, not a multiple of 8", l, v)
						return
					}
					if lo := (done + 7) / 8 * 8; v < lo {
						fail("label set %d: %d increments had returned, the counter then publishes %d (lower than the truth rounded up, %d)", l, done, v, lo)
						return
					}
					if hi := (begun + 7) / 8 * 8; v > hi {
						fail("label set %d: the counter publishes %d although at most %d increments had been started (more than 7 above the truth)", l, v, begun)
						return
					}
					if v < last {
						fail("label set %d: the counter went down from %d to %d", l, last, v)
						return
					}
					last = v
				}
			}(l)
		}
	}
	var totals [3]uint64
	for i, n := range c.Writers {
		l := c.Label[i] % 3
		totals[l] += uint64(n)
		wwg.Add(1)
		go func(n, l int) {
			defer wwg.Done()
			ctr := vec.With(roundedLabels[l])
			for k := 0; k < n; k++ {
				started[l].Add(1)
				ctr.Inc()
				completed[l].Add(1)
			}
		}(n, l)
	}
	wwg.Wait()
	close(stop)
	rwg.Wait()
	if e := firstErr.Load(); e != nil {
		return fmt.Errorf("%s (writers %v on label sets %v, %d readers each)", e.(string), c.Writers, c.Label, c.Readers)
	}
	for l := 0; l < 3; l++ {
		v, err := readRounded(vec.With(roundedLabels[l]))
		if err != nil {
			return err
		}
		if want := (totals[l] + 7) / 8 * 8; v != want {
			return fmt.Errorf("label set %d: after %d concurrent increments (all returned) the counter publishes %d, expected %d (writers %v on label sets %v)", l, totals[l], v, want, c.Writers, c.Label)
		}
	}
	return nil
}

var uRounded = vstat.New("C19", "c19_rounded_concurrent")

func init() {
	// a schedule-dependent failure is re-tried a few times from its case
	vstat.Register(uRounded, func(t *testing.T, c roundedCase) error {
		for i := 0; i < 20; i++ {
			if err := runRounded(t, c); err != nil {
				return err
			}
		}
		return nil
	})
}

func TestVerifC19RoundedConcurrent(t *testing.T) {
	defer uRounded.Flush()
	rapid.Check(t, func(rt *rapid.T) {
		var c roundedCase
		n := rapid.IntRange(1, 12).Draw(rt, "writers")
		same := map[int]int{}
		for i := 0; i < n; i++ {
			c.Writers = append(c.Writers, rapid.SampledFrom([]int{1, 7, 8, 9, 100, 3000, 20000, 50000}).Draw(rt, "n"))
			l := rapid.SampledFrom([]int{0, 0, 0, 1, 2}).Draw(rt, "label")
			c.Label = append(c.Label, l)
			same[l]++
		}
		c.Readers = rapid.IntRange(0, 2).Draw(rt, "readers")
		nt := false
		for _, k := range same {
			if k >= 2 {
				nt = true
			}
		}
		vstat.Run(uRounded, t, rt, c, nt, []string{fmt.Sprintf("readers per label set=%d", c.Readers), fmt.Sprintf("writers=%d", min(n, 8)/4*4)}, runRounded)
	})
}
