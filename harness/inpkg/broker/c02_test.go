//go:build go1.25

// C02 Broker never cross-wires offers, answers or bridges.
// C03 Matches respect NAT compatibility, availability and load order.
package main

import (
	"encoding/hex"
	"fmt"
	"sort"
	"strings"
	"testing"

	"pgregory.net/rapid"
	"verif.local/vstat"
)

// ---------------------------------------------------------------------------
// helpers over a scenario

func bridgeTable(sc *scenario) map[string]string {
	m := map[string]string{}
	if len(sc.Bridges) == 0 {
		m[strings.ToLower(defaultBridgeFP)] = defaultBridgeURL
		return m
	}
	for _, b := range sc.Bridges {
		m[strings.ToLower(b.FP)] = b.configuredURL()
	}
	return m
}

// fpClass: "listed" (with URL), "unlisted" (well-formed) or "malformed".
func fpClass(sc *scenario, fp string) (class, url string) {
	if fp == "" {
		fp = defaultBridgeFP
	}
	b, err := hex.DecodeString(fp)
	if err != nil || (len(b) != 20 && len(b) != 32) {
		return "malformed", ""
	}
	if u, ok := bridgeTable(sc)[strings.ToLower(fp)]; ok {
		return "listed", u
	}
	return "unlisted", ""
}

func validNATWire(p *string) bool {
	return p == nil || *p == "" || *p == "unknown" || *p == "restricted" || *p == "unrestricted"
}

// pollAccepted: the poll is well-formed and passes the relay pattern rule, so it registers.
func pollRegisters(sc *scenario, e *event, r *result) bool {
	return e.Kind == "poll" && validNATWire(e.NAT) && e.Sid != "" && r.PollStatus != "incorrect relay pattern" && r.IPCErr == "" && (r.Status == 0 || r.Status == 200)
}

// ---------------------------------------------------------------------------
// C02 invariants

func checkWiring(h *history) error {
	sc := h.Sc
	if h.Fatal != "" {
		return fmt.Errorf("scenario aborted: %s", h.Fatal)
	}
	clientByOffer := map[string]int{}
	for k, e := range sc.Events {
		if e.Kind == "client" {
			if _, dup := clientByOffer[e.Offer]; dup {
				return fmt.Errorf("harness: duplicate offer in scenario")
			}
			clientByOffer[e.Offer] = k
		}
	}
	// answers posted per sid (scripted and stray)
	posted := map[string][]string{}
	for k, e := range sc.Events {
		r := h.Res[k]
		if e.Kind == "poll" && r.AnsPosted && e.AnsMode != "wrongid" {
			posted[e.Sid] = append(posted[e.Sid], r.AnsText)
		}
		if e.Kind == "answer" {
			posted[e.Sid] = append(posted[e.Sid], e.Answer)
		}
	}
	pollOfOffer := map[string]int{}
	for k, e := range sc.Events {
		r := h.Res[k]
		if r.Panic != "" {
			return fmt.Errorf("event #%d (%s): handler panicked: %s", k, e.Kind, r.Panic)
		}
		if e.Kind != "poll" || r.PollStatus != "client match" {
			continue
		}
		ck, ok := clientByOffer[r.Offer]
		if !ok {
			return fmt.Errorf("event #%d: proxy poll %q received offer %q which no client sent", k, e.Sid, clipS(r.Offer))
		}
		if prev, dup := pollOfOffer[r.Offer]; dup {
			return fmt.Errorf("offer of client event #%d was handed to two proxy polls: %q and %q", ck, sc.Events[prev].Sid, e.Sid)
		}
		pollOfOffer[r.Offer] = k
		ce := sc.Events[ck]
		class, url := fpClass(sc, ce.FP)
		if class != "listed" {
			return fmt.Errorf("client event #%d named fingerprint %q (%s) yet its offer was handed to proxy %q", ck, ce.FP, class, e.Sid)
		}
		if r.RelayURL != url {
			return fmt.Errorf("proxy %q was handed client event #%d (fingerprint %q) with relay URL %q; the bridge list says %q", e.Sid, ck, ce.FP, r.RelayURL, url)
		}
		if !validNATWire(ce.NAT) {
			return fmt.Errorf("client event #%d sent invalid NAT %q yet was matched", ck, *ce.NAT)
		}
		if r.ClientNAT != natOf(ce.NAT) {
			return fmt.Errorf("proxy %q was told client NAT %q, client event #%d sent %q", e.Sid, r.ClientNAT, ck, natOf(ce.NAT))
		}
	}
	for k, e := range sc.Events {
		r := h.Res[k]
		switch e.Kind {
		case "client":
			class, _ := fpClass(sc, e.FP)
			pk, handed := pollOfOffer[e.Offer]
			if class != "listed" && (r.AnswerGot != "" || r.TimedOut) && r.Done {
				// never matched: no answer, and no waiting for one either (the hand-over itself is
				// checked above); being refused or told "no proxies" are both fine
				return fmt.Errorf("client event #%d named a fingerprint that is %s (%q) yet was matched: answer=%q err=%q", k, class, e.FP, clipS(r.AnswerGot), r.ErrGot)
			}
			if r.AnswerGot != "" {
				if !handed {
					return fmt.Errorf("client event #%d received answer %q although its offer was handed to no proxy", k, clipS(r.AnswerGot))
				}
				sid := sc.Events[pk].Sid
				ok := false
				for _, a := range posted[sid] {
					if a == r.AnswerGot {
						ok = true
					}
				}
				if !ok {
					return fmt.Errorf("client event #%d (offer handed to proxy %q) received answer %q; that proxy posted %q", k, sid, clipS(r.AnswerGot), posted[sid])
				}
			}
			if handed && r.Done && r.AnswerGot == "" && !r.TimedOut {
				return fmt.Errorf("client event #%d: offer was handed to proxy %q but the client was told %q", k, sc.Events[pk].Sid, r.ErrGot)
			}
		case "answer":
			if e.Sid == "nobody" && r.Done && r.AnsSuccess {
				return fmt.Errorf("answer for unknown id %q reported success", e.Sid)
			}
		case "poll":
			if e.AnsMode == "wrongid" && r.AnsPosted && r.AnsResult != nil && r.AnsResult.Done && r.AnsSuccess {
				return fmt.Errorf("answer posted for unknown id %q reported success", e.Sid+"-nonexistent")
			}
		}
	}
	return nil
}

func clipS(s string) string {
	if len(s) > 80 {
		return s[:80] + "…"
	}
	return s
}

// ---------------------------------------------------------------------------
// C03 invariants

func pool(nat string) string {
	if nat == "unrestricted" {
		return "unrestricted"
	}
	return "other"
}

func checkMatching(h *history) error {
	sc := h.Sc
	if h.Fatal != "" {
		return fmt.Errorf("scenario aborted: %s", h.Fatal)
	}
	const never = int64(1) << 62
	type pinfo struct {
		k        int
		pool     string
		clients  int
		arrive   int64
		expire   int64
		matched  int64 // instant its poll returned an offer
		withOffer string
	}
	var polls []pinfo
	for k, e := range sc.Events {
		r := h.Res[k]
		if e.Kind == "poll" && !validNATWire(e.NAT) && r.PollStatus == "client match" {
			return fmt.Errorf("poll event #%d reports NAT %q, which is none of the three NAT types, yet it was handed a client's offer", k, *e.NAT)
		}
		if !pollRegisters(sc, &e, &r) {
			continue
		}
		p := pinfo{k: k, pool: pool(natOf(e.NAT)), clients: e.Clients, arrive: e.At, expire: e.At + 10*sec, matched: never}
		if r.PollStatus == "client match" {
			p.matched = r.End
			p.withOffer = r.Offer
		}
		polls = append(polls, p)
	}
	for k, e := range sc.Events {
		if e.Kind != "client" {
			continue
		}
		r := h.Res[k]
		if !r.Done || r.OtherErr || r.Panic != "" || r.IPCErr != "" {
			continue
		}
		if class, _ := fpClass(sc, e.FP); class != "listed" || !validNATWire(e.NAT) {
			continue
		}
		T := e.At
		cnat := natOf(e.NAT)
		want := "unrestricted" // pool a restricted/unknown client is served from
		if cnat == "unrestricted" {
			want = "other"
		}
		var mine *pinfo
		for i := range polls {
			if polls[i].withOffer == e.Offer {
				mine = &polls[i]
			}
		}
		if mine != nil {
			me := sc.Events[mine.k]
			if mine.pool != want {
				return fmt.Errorf("client event #%d with NAT %q was matched with proxy %q whose NAT is %q", k, cnat, me.Sid, natOf(me.NAT))
			}
			if T < mine.arrive || T > mine.expire {
				return fmt.Errorf("client event #%d at %s was matched with proxy %q that waited only during [%s,%s]", k, dur(T), me.Sid, dur(mine.arrive), dur(mine.expire))
			}
		}
		for _, q := range polls {
			// definitely waiting and left unmatched at this instant
			if q.pool != want || !(q.arrive < T && T < q.expire) || q.matched <= T {
				continue
			}
			qe := sc.Events[q.k]
			if mine == nil && r.Denied {
				return fmt.Errorf("client event #%d (NAT %q) at %s was refused with 'no proxies' while eligible proxy %q (NAT %q, polled at %s) was waiting", k, cnat, dur(T), qe.Sid, natOf(qe.NAT), dur(q.arrive))
			}
			if mine != nil && q.clients < mine.clients {
				return fmt.Errorf("client event #%d at %s was given proxy %q (clients=%d) while eligible proxy %q with fewer clients (%d) was waiting", k, dur(T), sc.Events[mine.k].Sid, mine.clients, qe.Sid, q.clients)
			}
		}
	}
	return nil
}

// ---------------------------------------------------------------------------
// generator of mixed histories

var goodFP32 = "00112233445566778899AABBCCDDEEFF00112233445566778899AABBCCDDEEFF"

func genBridges(t *rapid.T) []bridgeSpec {
	switch rapid.IntRange(0, 3).Draw(t, "bridgecfg") {
	case 0:
		return nil // built-in default list
	}
	n := rapid.IntRange(1, 4).Draw(t, "nbridges")
	pool := []bridgeSpec{
		{FP: defaultBridgeFP, URL: "wss://default.example/"},
		{FP: "8838024498816A039FCBBAB14E6F40A0843051FA", URL: "wss://02.snowflake.example/"},
		{FP: goodFP32, URL: "wss://sha256.bridge.example/path"},
		{FP: "aaaaaaaaaaaaaaaaaaaaaaaaaaaaaaaaaaaaaaaa", URL: "ws://plain.example:8080/"},
		{FP: "0123456789ABCDEF0123456789ABCDEF01234567", URL: "wss://default.example/"}, // same URL as another bridge
	}
	idx := rapid.SliceOfNDistinct(rapid.IntRange(0, len(pool)-1), n, n, rapid.ID[int]).Draw(t, "bridgeidx")
	var out []bridgeSpec
	for _, i := range idx {
		b := pool[i]
		// most records carry all three members; some leave one out or are written differently
		b.Form = rapid.SampledFrom([]string{"", "", "", "", "nourl", "noname", "reordered"}).Draw(t, "recordform")
		out = append(out, b)
	}
	return out
}

func genFP(t *rapid.T, sc *scenario) string {
	switch rapid.IntRange(0, 9).Draw(t, "fpkind") {
	case 0, 1:
		return ""
	case 2, 3, 4, 5:
		tab := sc.Bridges
		if len(tab) == 0 {
			return defaultBridgeFP
		}
		fp := rapid.SampledFrom(tab).Draw(t, "fplisted").FP
		if rapid.Bool().Draw(t, "fplower") {
			fp = strings.ToLower(fp)
		}
		return fp
	case 6, 7:
		return rapid.SampledFrom([]string{"FFFFFFFFFFFFFFFFFFFFFFFFFFFFFFFFFFFFFFFF", "8838024498816A039FCBBAB14E6F40A0843051FA", goodFP32, "aaaaaaaaaaaaaaaaaaaaaaaaaaaaaaaaaaaaaaaa"}).Draw(t, "fpother")
	default:
		return rapid.SampledFrom([]string{"zz", "2B280B23E1107BB62ABFC40DDCC8824814F80A", "2B280B23E1107BB62ABFC40DDCC8824814F80A7", "2B280B23E1107BB62ABFC40DDCC8824814F80A7200", "not hex at all"}).Draw(t, "fpbad")
	}
}

func genMixedScenario(t *rapid.T, ties bool) (scenario, []string) {
	var sc scenario
	var labels []string
	sc.Bridges = genBridges(t)
	n := rapid.IntRange(2, 24).Draw(t, "nevents")
	sid, cid := 0, 0
	used := map[int64]bool{}
	for i := 0; i < n; i++ {
		var at int64
		if ties {
			// rounds: a base instant plus an offset from the tie grid, so that polls and clients of one
			// round overlap (a poll lives 10 s) and timer ties are frequent
			base := rapid.SampledFrom([]int64{0, 0, 12 * sec, 24 * sec}).Draw(t, "base")
			at = base + rapid.SampledFrom([]int64{0, 0, 1, 2, sec, 3 * sec, 5 * sec, 9 * sec, 10*sec - 1, 10 * sec, 10*sec + 1}).Draw(t, "offset")
		} else {
			// distinct, and never exactly 10 s after another event
			for {
				at = int64(rapid.IntRange(0, 250).Draw(t, "atslot"))*sec/10 + int64(i)*7 // unique remainder per event index
				if !used[at] {
					break
				}
			}
			used[at] = true
		}
		if rapid.IntRange(0, 9).Draw(t, "kind") < 5 {
			sid++
			e := genPollEvent(t, at, fmt.Sprintf("p%d", sid))
			if rapid.IntRange(0, 2).Draw(t, "quickanswer") != 0 {
				e.AnsMode = "prompt"
			}
			if rapid.IntRange(0, 2).Draw(t, "biasnat") != 0 {
				e.NAT = strp("unrestricted") // keep most polls matchable by ordinary clients
			}
			sc.Events = append(sc.Events, e)
		} else {
			cid++
			e := genClientEvent(t, at, cid)
			if rapid.IntRange(0, 2).Draw(t, "biascnat") != 0 {
				e.NAT = rapid.SampledFrom([]*string{nil, strp("restricted"), strp("unknown")}).Draw(t, "cnat2")
			}
			noise := rapid.OneOf(rapid.SampledFrom([]string{"", "\"", "\\n\n", " <>&", "ü☃"}), rapid.StringN(0, 12, -1)).Draw(t, "offernoise")
			noise = strings.ToValidUTF8(noise, "?")
			e.Offer = fmt.Sprintf("{\"type\":\"offer\",\"n\":%d,\"sdp\":%q}", cid, noise)
			if rapid.IntRange(0, 40).Draw(t, "bigoffer") == 40 {
				e.Offer = fmt.Sprintf("{\"type\":\"offer\",\"n\":%d,\"sdp\":%q}", cid, strings.Repeat("v=0 ", 2500))
			}
			e.FP = genFP(t, &sc)
			if e.Door == "legacy" {
				e.FP = "" // the legacy format cannot name a bridge
			}
			sc.Events = append(sc.Events, e)
		}
	}
	if rapid.IntRange(0, 4).Draw(t, "stray") == 0 {
		sc.Events = append(sc.Events, event{At: rapid.SampledFrom([]int64{0, 5*sec + 3, 11*sec + 3}).Draw(t, "strayat"), Kind: "answer", Sid: straySid(t, &sc), Answer: "stray-answer", Door: "ipc"})
		labels = append(labels, "stray answer")
	}
	if ties {
		sc.Reps = vstat.Pick(3, 10)
	} else {
		sc.Reps = 1
	}
	return sc, labels
}

// overlapping matches / non-default bridges, computed from a history (for the non-trivial rule)
func wiringInteresting(h *history) (overlap bool, nonDefault bool, matches int) {
	type iv struct{ a, b int64 }
	var ivs []iv
	offerAt := map[string]int64{}
	fpOf := map[string]string{}
	for _, e := range h.Sc.Events {
		if e.Kind == "client" {
			offerAt[e.Offer] = e.At
			fpOf[e.Offer] = e.FP
		}
	}
	for k, e := range h.Sc.Events {
		r := h.Res[k]
		if e.Kind == "poll" && r.PollStatus == "client match" {
			matches++
			end := r.End
			if r.AnsResult != nil && r.AnsResult.Done {
				end = r.AnsResult.End
			}
			ivs = append(ivs, iv{offerAt[r.Offer], end + 1})
			if fp := fpOf[r.Offer]; fp != "" && !strings.EqualFold(fp, defaultBridgeFP) {
				nonDefault = true
			}
		}
	}
	sort.Slice(ivs, func(i, j int) bool { return ivs[i].a < ivs[j].a })
	for i := 1; i < len(ivs); i++ {
		if ivs[i].a < ivs[i-1].b {
			overlap = true
		}
	}
	return
}

var uC02 = vstat.New("C02", "c02_wiring")

func runC02(t *testing.T, sc scenario) error {
	return runReps(t, sc, func(h *history) error {
		if err := checkWiring(h); err != nil {
			return err
		}
		return checkBounded(h)
	})
}

func init() { vstat.Register(uC02, runC02) }

func TestVerifC02Wiring(t *testing.T) {
	defer uC02.Flush()
	wedgeUnit = uC02
	rapid.Check(t, func(rt *rapid.T) {
		sc, labels := genMixedScenario(rt, true)
		uC02.Journal(sc) // a crash of the broker code kills the test process: the journal names the case
		// classification needs one execution: run once, classify, then the repetitions
		var nt bool
		err := vstat.Safely(func() error {
			return runReps(t, scenario{Bridges: sc.Bridges, Events: sc.Events, Reps: 1}, func(h *history) error {
				ov, nd, m := wiringInteresting(h)
				nt = (ov && m >= 2) || nd
				if ov {
					labels = append(labels, "overlapping matches")
				}
				if nd {
					labels = append(labels, "match via non-default bridge")
				}
				if m == 0 {
					labels = append(labels, "no match")
				}
				if err := checkWiring(h); err != nil {
					return err
				}
				return checkBounded(h)
			})
		})
		uC02.Case(sc, nt, labels...)
		if err == nil {
			err = vstat.Safely(func() error { return runC02(t, sc) })
		}
		if err != nil {
			rt.Fatalf("%s", uC02.Fail(sc, "%v", err))
		}
	})
	uC02.JournalDone()
}

// ---------------------------------------------------------------------------

var uC03 = vstat.New("C03", "c03_matching")

func runC03(t *testing.T, sc scenario) error {
	return runReps(t, sc, func(h *history) error {
		if err := checkMatching(h); err != nil {
			return err
		}
		return checkWiring(h)
	})
}

func init() { vstat.Register(uC03, runC03) }

// nontrivial for C03: at some client arrival both pools are non-empty and the eligible pool
// holds >= 2 distinct clients values, or a burst of simultaneous clients exceeds its pool.
func matchingInteresting(sc *scenario) (bool, []string) {
	var labels []string
	nt := false
	for _, c := range sc.Events {
		if c.Kind != "client" {
			continue
		}
		vals := map[string]map[int]bool{"unrestricted": {}, "other": {}}
		for _, p := range sc.Events {
			if p.Kind == "poll" && validNATWire(p.NAT) && p.At < c.At && c.At < p.At+10*sec {
				vals[pool(natOf(p.NAT))][p.Clients] = true
			}
		}
		want := "unrestricted"
		if natOf(c.NAT) == "unrestricted" {
			want = "other"
		}
		if len(vals["unrestricted"]) > 0 && len(vals["other"]) > 0 && len(vals[want]) >= 2 {
			nt = true
		}
	}
	byAt := map[int64]int{}
	for _, c := range sc.Events {
		if c.Kind == "client" {
			byAt[c.At]++
		}
	}
	for _, n := range byAt {
		if n >= 3 {
			labels = append(labels, "burst>=3")
			nt = true
			break
		}
	}
	if nt {
		labels = append(labels, "both pools, several loads")
	}
	return nt, labels
}

func TestVerifC03Matching(t *testing.T) {
	defer uC03.Flush()
	wedgeUnit = uC03
	rapid.Check(t, func(rt *rapid.T) {
		ties := rapid.IntRange(0, 2).Draw(rt, "ties") == 0
		sc, labels := genMixedScenario(rt, ties)
		if ties {
			labels = append(labels, "with ties/bursts")
		} else {
			labels = append(labels, "distinct instants")
		}
		nt, l2 := matchingInteresting(&sc)
		uC03.Journal(sc)
		vstat.Run(uC03, t, rt, sc, nt, append(labels, l2...), runC03)
	})
	uC03.JournalDone()
}

// The NAT compatibility matrix, enumerated exhaustively with wire variants and doors.
func TestVerifC03Matrix(t *testing.T) {
	u := vstat.New("C03", "c03_matrix")
	defer u.Flush()
	wire := []*string{nil, strp(""), strp("unknown"), strp("restricted"), strp("unrestricted")}
	n := 0
	for _, pn := range wire {
		for _, cn := range wire {
			for _, pd := range []string{"ipc", "http"} {
				for _, cd := range []string{"ipc", "post", "legacy", "amp"} {
					sc := scenario{Events: []event{
						{At: 0, Kind: "poll", Sid: "p", NAT: pn, Type: "standalone", Pattern: strp(""), Door: pd, AnsMode: "prompt"},
						{At: sec, Kind: "client", Offer: "{\"o\":1}", NAT: cn, Door: cd},
					}, Reps: 1}
					compatible := (natOf(cn) == "unrestricted") != (natOf(pn) == "unrestricted")
					u.Case(sc, true)
					n++
					err := runReps(t, sc, func(h *history) error {
						r := h.Res[1]
						if compatible && r.AnswerGot != answerFor("p", "{\"o\":1}") {
							return fmt.Errorf("proxy NAT %q, client NAT %q (doors %s/%s): expected a match, client got answer=%q err=%q", natOf(pn), natOf(cn), pd, cd, r.AnswerGot, r.ErrGot)
						}
						if !compatible && !r.Denied {
							return fmt.Errorf("proxy NAT %q, client NAT %q (doors %s/%s): expected 'no proxies', client got answer=%q err=%q", natOf(pn), natOf(cn), pd, cd, r.AnswerGot, r.ErrGot)
						}
						return checkNoGhosts(h)
					})
					if err != nil {
						t.Fatalf("%s", u.Fail(sc, "%v", err))
					}
				}
			}
		}
	}
	u.Add("exhaustive_matrix_cells", int64(n))
}

func init() {
	vstat.Register(vstat.New("C03", "c03_matrix"), func(t *testing.T, sc scenario) error {
		return runReps(t, sc, func(h *history) error {
			if err := checkMatching(h); err != nil {
				return err
			}
			return checkWiring(h)
		})
	})
}

// straySid: the id of one of the scenario's polls (a premature or duplicate answer) or an id
// nobody polled with.
func straySid(t *rapid.T, sc *scenario) string {
	ids := []string{"nobody"}
	for _, e := range sc.Events {
		if e.Kind == "poll" {
			ids = append(ids, e.Sid)
		}
	}
	return rapid.SampledFrom(ids).Draw(t, "straysid")
}
