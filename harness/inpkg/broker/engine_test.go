//go:build go1.25

//go:debug asynctimerchan=0

// Broker scenario engine: runs a generated history of timed proxy polls, client
// polls, answers and raw HTTP requests against the real broker code inside a
// testing/synctest bubble (the harness owns the clock), and records what every
// request saw. The property checks (C02, C03, C04, C06b, C11b, C14, C19, C20) are
// invariants over the recorded history.
package main

import (
	"bytes"
	"encoding/json"
	"fmt"
	"io"
	"log"
	"net/http"
	"net/http/httptest"
	"os"
	"runtime"
	"sort"
	"strings"
	"sync"
	"testing"
	"testing/synctest"
	"time"

	"git.torproject.org/pluggable-transports/snowflake.git/v2/common/amp"
	"git.torproject.org/pluggable-transports/snowflake.git/v2/common/ipsetsink"
	"git.torproject.org/pluggable-transports/snowflake.git/v2/common/ipsetsink/sinkcluster"
	"git.torproject.org/pluggable-transports/snowflake.git/v2/common/messages"
	"github.com/prometheus/client_golang/prometheus/promhttp"
	"verif.local/vstat"
	dto "github.com/prometheus/client_model/go"
)

func init() {
	log.SetOutput(io.Discard)
}

const sec = int64(time.Second)

type bridgeSpec struct {
	FP  string `json:"fp"` // hex
	URL string `json:"url"`
	// how the record is written in the bridge list: "" = all three members; "nourl" = the webSocketAddress
	// member is absent (the bridge's configured relay URL is then empty; URL above is ignored);
	// "noname" = displayName absent; "reordered" = members in another order (unknown members are refused by the loader, by design)
	Form string `json:"form,omitempty"`
}

func (b bridgeSpec) line(i int) string {
	name, _ := json.Marshal(fmt.Sprintf("b%d", i))
	u, _ := json.Marshal(b.URL)
	fp, _ := json.Marshal(b.FP)
	switch b.Form {
	case "nourl":
		return fmt.Sprintf(`{"displayName":%s, "fingerprint":%s}`, name, fp)
	case "noname":
		return fmt.Sprintf(`{"webSocketAddress":%s, "fingerprint":%s}`, u, fp)
	case "reordered":
		return fmt.Sprintf(`{"fingerprint":%s,"webSocketAddress":%s,   "displayName":%s}`, fp, u, name)
	}
	return fmt.Sprintf(`{"displayName":%s, "webSocketAddress":%s, "fingerprint":%s}`, name, u, fp)
}

// configuredURL is the relay URL the list configures for this bridge.
func (b bridgeSpec) configuredURL() string {
	if b.Form == "nourl" {
		return ""
	}
	return b.URL
}

type event struct {
	At   int64  `json:"at"`   // ns since scenario start
	Kind string `json:"kind"` // poll | client | answer | http

	// poll
	Sid     string  `json:"sid,omitempty"`
	NAT     *string `json:"nat,omitempty"` // nil = member absent on the wire
	Type    string  `json:"type,omitempty"`
	Clients int     `json:"clients,omitempty"`
	Pattern *string `json:"pattern,omitempty"` // nil = legacy proxy (no relay pattern member)
	Door    string  `json:"door,omitempty"`    // poll/answer: ipc | http ; client: ipc | post | legacy | amp
	Remote  string  `json:"remote,omitempty"`
	// what the scripted proxy does once its poll returned an offer
	AnsMode  string `json:"ansmode,omitempty"`  // prompt | delay | never | wrongid
	AnsDelay int64  `json:"ansdelay,omitempty"` // ns after the offer arrived

	// client
	Offer string `json:"offer,omitempty"`
	FP    string `json:"fp,omitempty"` // "" = absent; otherwise sent as is

	// standalone answer
	Answer string `json:"answer,omitempty"`

	// raw http
	Method  string            `json:"method,omitempty"`
	Path    string            `json:"path,omitempty"`
	Headers map[string]string `json:"headers,omitempty"`
	Body    []byte            `json:"body,omitempty"`
	// http doors and raw http: the body length is not announced (chunked transfer encoding /
	// HTTP/2 without content-length: the handler sees ContentLength == -1)
	Chunked bool `json:"chunked,omitempty"`
}

type scenario struct {
	Bridges  []bridgeSpec `json:"bridges,omitempty"` // empty = the built-in default list
	Allowed  string       `json:"allowed,omitempty"`
	Presumed string       `json:"presumed,omitempty"`
	Events   []event      `json:"events"`
	Reps     int          `json:"reps,omitempty"`
}

// result of one request
type result struct {
	Started  bool
	PollDone bool // poll events: the poll itself got its response (the scripted answer may still be pending)
	Done     bool
	Start  int64
	End    int64
	Panic  string
	Status int    // HTTP status (http doors); 0 for ipc
	IPCErr string // error returned by the IPC method (ipc doors)
	Raw    []byte

	// poll
	PollStatus string // "client match" | "no match" | other status | "" if undecodable
	Offer      string
	ClientNAT  string
	RelayURL   string
	// the answer posted by the scripted proxy after this poll
	AnsPosted  bool
	AnsText    string
	AnsResult  *result
	AnsSuccess bool

	// client
	AnswerGot string
	ErrGot    string // error string of the client poll response ("" if an answer came)
	Denied    bool   // http 503 (legacy) or error == no proxies
	TimedOut  bool
	OtherErr  bool // any other failure (5xx, error JSON, undecodable)
}

type postState struct {
	Debug        string
	GaugeSum     float64
	HeapLen      int
	RHeapLen     int
	IDs          int
	FreshDenied  [3]bool // unknown, restricted, unrestricted
	FreshReplies [3]string
}

type history struct {
	Sc    *scenario
	Res   []result
	Post  postState
	Hung  bool // bubble ended with blocked goroutines
	Fatal string
}

var defaultBridgeFP = "2B280B23E1107BB62ABFC40DDCC8824814F80A72"

const defaultBridgeURL = "wss://snowflake.torproject.net/"

type memSyncer struct {
	mu sync.Mutex
	b  bytes.Buffer
}

func (m *memSyncer) Write(p []byte) (int, error) { m.mu.Lock(); defer m.mu.Unlock(); return m.b.Write(p) }
func (m *memSyncer) Sync() error                 { return nil }

// Every NewBrokerContext leaves a goroutine with an unstoppable 24 h ticker behind, so contexts
// are cached per configuration and reused as long as the previous run left them clean (which
// the checks verify after every run: no registrations, gauges at zero).
var ctxCache = map[string]*BrokerContext{}

func cfgKey(sc *scenario) string {
	b, _ := json.Marshal([]any{sc.Bridges, sc.Allowed, sc.Presumed})
	return string(b)
}

func cachedContext(sc *scenario) (*BrokerContext, error) {
	k := cfgKey(sc)
	if c, ok := ctxCache[k]; ok {
		return c, nil
	}
	c, err := newContext(sc, io.Discard)
	if err == nil {
		ctxCache[k] = c
	}
	return c, err
}

func dropContext(sc *scenario) { delete(ctxCache, cfgKey(sc)) }

func newContext(sc *scenario, metricsOut io.Writer) (*BrokerContext, error) {
	ctx := NewBrokerContext(log.New(metricsOut, "", 0))
	// as main() does with -ip-count-log: the distinct-IP recorder is part of the poll path
	ctx.metrics.SetIPAddressRecorder(sinkcluster.NewClusterWriter(&memSyncer{}, time.Hour, ipsetsink.NewIPSetSink("verif-mask")))
	if len(sc.Bridges) > 0 || sc.Allowed != "" || sc.Presumed != "" {
		var b bytes.Buffer
		bl := sc.Bridges
		if len(bl) == 0 {
			bl = []bridgeSpec{{FP: defaultBridgeFP, URL: defaultBridgeURL}}
		}
		for i, br := range bl {
			b.WriteString(br.line(i))
			b.WriteByte('\n')
		}
		if err := ctx.InstallBridgeListProfile(&b, sc.Allowed, sc.Presumed); err != nil {
			return nil, err
		}
	}
	return ctx, nil
}

// mux mirrors the route table of main().
func newMux(ctx *BrokerContext) *http.ServeMux {
	i := &IPC{ctx}
	m := http.NewServeMux()
	m.HandleFunc("/robots.txt", robotsTxtHandler)
	m.Handle("/proxy", SnowflakeHandler{i, proxyPolls})
	m.Handle("/client", SnowflakeHandler{i, clientOffers})
	m.Handle("/answer", SnowflakeHandler{i, proxyAnswers})
	m.Handle("/debug", SnowflakeHandler{i, debugHandler})
	m.Handle("/metrics", MetricsHandler{"", metricsHandler})
	m.Handle("/prometheus", promhttp.HandlerFor(ctx.metrics.promMetrics.registry, promhttp.HandlerOpts{}))
	m.Handle("/amp/client/", SnowflakeHandler{i, ampClientOffers})
	return m
}

func answerFor(sid, offer string) string {
	return "ANSWER<" + sid + "|" + offer + ">"
}

func pollBody(e *event) []byte {
	m := map[string]any{"Sid": e.Sid, "Version": "1.3", "Type": e.Type, "Clients": e.Clients}
	if e.NAT != nil {
		m["NAT"] = *e.NAT
	}
	if e.Pattern != nil {
		m["AcceptedRelayPattern"] = *e.Pattern
	}
	b, _ := json.Marshal(m)
	return b
}

func serve(mux http.Handler, method, target string, hdr map[string]string, body []byte, remote string, chunked ...bool) (rec *httptest.ResponseRecorder, pan string) {
	rec = httptest.NewRecorder()
	var req *http.Request
	func() {
		defer func() {
			if r := recover(); r != nil {
				req = nil // the generated request line is not valid HTTP: not a request a server ever sees
			}
		}()
		if len(chunked) > 0 && chunked[0] {
			// a reader type net/http knows no length for: ContentLength = -1, as for a chunked body
			req = httptest.NewRequest(method, target, struct{ io.Reader }{bytes.NewReader(body)})
		} else {
			req = httptest.NewRequest(method, target, bytes.NewReader(body))
		}
	}()
	if req == nil {
		rec.Code = 400
		return rec, ""
	}
	if remote != "" {
		req.RemoteAddr = remote
	}
	for k, v := range hdr {
		req.Header.Set(k, v)
	}
	defer func() {
		if r := recover(); r != nil {
			pan = fmt.Sprint(r)
		}
	}()
	mux.ServeHTTP(rec, req)
	return rec, ""
}

func safeIPC(f func() error) (errStr string, pan string) {
	defer func() {
		if r := recover(); r != nil {
			pan = fmt.Sprint(r)
		}
	}()
	if err := f(); err != nil {
		return err.Error(), ""
	}
	return "", ""
}

// doPoll performs one proxy poll and the scripted answer that follows it.
func doPoll(ctx *BrokerContext, mux http.Handler, e *event, r *result, now func() int64, pub func()) {
	i := &IPC{ctx}
	body := pollBody(e)
	remote := e.Remote
	if remote == "" {
		remote = "203.0.113.9:1234"
	}
	if e.Door == "http" {
		rec, pan := serve(mux, "POST", "/proxy", nil, body, remote, e.Chunked)
		r.Panic, r.Status, r.Raw = pan, rec.Code, rec.Body.Bytes()
	} else {
		var resp []byte
		r.IPCErr, r.Panic = safeIPC(func() error { return i.ProxyPolls(messages.Arg{Body: body, RemoteAddr: remote}, &resp) })
		r.Raw = resp
	}
	r.End = now()
	r.PollDone = true
	if r.Panic == "" && (r.Status == 200 || (e.Door != "http" && r.IPCErr == "")) {
		var pr messages.ProxyPollResponse
		if json.Unmarshal(r.Raw, &pr) == nil {
			r.PollStatus, r.Offer, r.ClientNAT, r.RelayURL = pr.Status, pr.Offer, pr.NAT, pr.RelayURL
		}
	}
	if r.PollStatus != "client match" || e.AnsMode == "never" || e.AnsMode == "" {
		r.Done = true
		return
	}
	pub()
	if e.AnsMode == "delay" && e.AnsDelay > 0 {
		time.Sleep(time.Duration(e.AnsDelay))
	}
	sid := e.Sid
	if e.AnsMode == "wrongid" {
		sid = e.Sid + "-nonexistent"
	}
	r.AnsText = answerFor(e.Sid, r.Offer)
	ar := &result{Started: true, Start: now()}
	r.AnsPosted = true
	r.AnsResult = &result{Started: true, Start: ar.Start}
	pub()
	doAnswer(ctx, mux, e.Door, sid, r.AnsText, ar, now)
	r.AnsResult = ar
	r.AnsSuccess = ar.AnsSuccess
	r.Done = true
}

func doAnswer(ctx *BrokerContext, mux http.Handler, door, sid, answer string, r *result, now func() int64) {
	i := &IPC{ctx}
	body, _ := messages.EncodeAnswerRequest(answer, sid)
	if door == "http" {
		rec, pan := serve(mux, "POST", "/answer", nil, body, "")
		r.Panic, r.Status, r.Raw = pan, rec.Code, rec.Body.Bytes()
	} else {
		var resp []byte
		r.IPCErr, r.Panic = safeIPC(func() error { return i.ProxyAnswers(messages.Arg{Body: body}, &resp) })
		r.Raw = resp
	}
	r.End = now()
	if ok, err := messages.DecodeAnswerResponse(r.Raw); err == nil {
		r.AnsSuccess = ok
	}
	r.Done = true
}

func clientBody(e *event) []byte {
	m := map[string]any{"offer": e.Offer}
	if e.NAT != nil {
		m["nat"] = *e.NAT
	}
	if e.FP != "" {
		m["fingerprint"] = e.FP
	}
	b, _ := json.Marshal(m)
	return append([]byte("1.0\n"), b...)
}

func doClient(ctx *BrokerContext, mux http.Handler, e *event, r *result, now func() int64) {
	i := &IPC{ctx}
	var respJSON []byte
	switch e.Door {
	case "post":
		rec, pan := serve(mux, "POST", "/client", nil, clientBody(e), "", e.Chunked)
		r.Panic, r.Status, r.Raw = pan, rec.Code, rec.Body.Bytes()
		if rec.Code == 200 {
			respJSON = r.Raw
		}
	case "legacy":
		hdr := map[string]string{}
		if e.NAT != nil {
			hdr["Snowflake-NAT-Type"] = *e.NAT
		}
		rec, pan := serve(mux, "POST", "/client", hdr, []byte(e.Offer), "", e.Chunked)
		r.Panic, r.Status, r.Raw = pan, rec.Code, rec.Body.Bytes()
		r.End = now()
		switch {
		case pan != "":
		case rec.Code == 200:
			r.AnswerGot = string(r.Raw)
		case rec.Code == http.StatusServiceUnavailable:
			r.Denied, r.ErrGot = true, messages.StrNoProxies
		case rec.Code == http.StatusGatewayTimeout:
			r.TimedOut, r.ErrGot = true, messages.StrTimedOut
		default:
			r.OtherErr, r.ErrGot = true, fmt.Sprintf("http %d", rec.Code)
		}
		r.Done = true
		return
	case "amp":
		rec, pan := serve(mux, "GET", "/amp/client/"+amp.EncodePath(clientBody(e)), nil, nil, "")
		r.Panic, r.Status, r.Raw = pan, rec.Code, rec.Body.Bytes()
		if rec.Code == 200 && pan == "" {
			if dec, err := amp.NewArmorDecoder(bytes.NewReader(r.Raw)); err == nil {
				respJSON, _ = io.ReadAll(dec)
			}
		}
	default:
		var resp []byte
		r.IPCErr, r.Panic = safeIPC(func() error { return i.ClientOffers(messages.Arg{Body: clientBody(e)}, &resp) })
		r.Raw = resp
		if r.IPCErr == "" {
			respJSON = resp
		}
	}
	r.End = now()
	if r.Panic == "" {
		if resp, err := messages.DecodeClientPollResponse(respJSON); err == nil {
			r.AnswerGot, r.ErrGot = resp.Answer, resp.Error
			switch {
			case resp.Error == "":
			case resp.Error == messages.StrNoProxies:
				r.Denied = true
			case resp.Error == messages.StrTimedOut:
				r.TimedOut = true
			default:
				r.OtherErr = true
			}
		} else {
			r.OtherErr = true
			r.ErrGot = fmt.Sprintf("undecodable response (http %d, ipc error %q)", r.Status, r.IPCErr)
		}
	}
	r.Done = true
}

func gaugeSum(ctx *BrokerContext) float64 {
	mfs, err := ctx.metrics.promMetrics.registry.Gather()
	if err != nil {
		return -1
	}
	sum := 0.0
	for _, mf := range mfs {
		if mf.GetName() == "snowflake_available_proxies" {
			for _, m := range mf.GetMetric() {
				sum += m.GetGauge().GetValue()
			}
		}
	}
	return sum
}

func gather(ctx *BrokerContext) map[string]float64 {
	out := map[string]float64{}
	mfs, _ := ctx.metrics.promMetrics.registry.Gather()
	for _, mf := range mfs {
		for _, m := range mf.GetMetric() {
			var ls []string
			for _, lp := range m.GetLabel() {
				ls = append(ls, lp.GetName()+"="+lp.GetValue())
			}
			sort.Strings(ls)
			key := mf.GetName() + "{" + strings.Join(ls, ",") + "}"
			switch mf.GetType() {
			case dto.MetricType_COUNTER:
				out[key] = m.GetCounter().GetValue()
			case dto.MetricType_GAUGE:
				out[key] = m.GetGauge().GetValue()
			}
		}
	}
	return out
}

// runScenario executes the scenario once. ctx must have been created OUTSIDE the
// bubble (its metrics goroutine holds a 24 h real ticker). settle is how long the
// fake clock is advanced after the last event.
// wedgeUnit is the unit to blame when a scenario wedges (set by each test function).
var wedgeUnit *vstat.Unit

// watchdog: a goroutine that waits for a sync.Mutex is not "durably blocked", so a
// lock-held deadlock inside the bubble freezes the fake clock instead of being reported.
// A real-time goroutine OUTSIDE the bubble turns a scenario that makes no progress for 30 s
// of real time (scenarios take milliseconds) into a failure with the broker's stacks.
func watchdog(sc *scenario) (stop func()) {
	done := make(chan struct{})
	go func() {
		// A deadlock leaves NO goroutine of the bubble runnable. On an overloaded machine goroutines can be
		// runnable and still not get anywhere for a long time: that is starvation, the environment's fault.
		// The verdict therefore needs a snapshot in which every goroutine of the bubble is blocked and at
		// least one of them waits for a lock; snapshots with runnable goroutines only postpone it.
		wait := 30 * time.Second
		for attempt := 0; ; attempt++ {
			select {
			case <-done:
				return
			case <-time.After(wait):
			}
			wait = 15 * time.Second
			buf := make([]byte, 1<<28)
			buf = buf[:runtime.Stack(buf, true)]
			var rel []string
			// the goroutines of the wedged bubble: those tagged with the bubble id of the goroutine
			// that sits in synctest.Run
			all := strings.Split(string(buf), "\n\n")
			bubble := ""
			for _, g := range all {
				if strings.Contains(g, "internal/synctest.Run") {
					if i := strings.Index(g, "synctest bubble "); i >= 0 {
						bubble = strings.SplitN(g[i:], "]", 2)[0]
					}
				}
			}
			if bubble != "" {
				for _, g := range all {
					if strings.Contains(g, bubble+"]") && !strings.Contains(g, "internal/synctest.Run") {
						rel = append(rel, g)
					}
				}
			}
			for _, g := range all {
				if bubble != "" {
					break
				}
				if (strings.Contains(g, "/broker.(*") || strings.Contains(g, "/broker.proxy") || strings.Contains(g, "/broker.client")) && strings.Contains(g, "sync.(*Mutex).Lock") || strings.Contains(g, "chan send") && strings.Contains(g, "/broker.(*IPC)") {
					rel = append(rel, g)
				}
			}
			st := strings.Join(rel, "\n\n")
			if len(rel) == 0 {
				st = "(no goroutine blocked on the broker's lock; all stacks follow)\n" + string(buf)
			}
			if len(st) > 9000 {
				st = st[:9000]
			}
			lockWait, busy := false, false
			for _, g := range rel {
				head := strings.SplitN(g, "\n", 2)[0]
				if strings.Contains(head, "[runnable") || strings.Contains(head, "[running") || strings.Contains(head, "[syscall") {
					busy = true
				}
				if strings.Contains(g, "sync.Mutex.Lock") || strings.Contains(g, "sync.(*Mutex).Lock") || strings.Contains(g, "semacquire") || strings.Contains(g, "sync.RWMutex") {
					lockWait = true
				}
			}
			if busy && attempt < 6 {
				continue // starved, not stuck: look again later
			}
			if busy || !lockWait {
				why := "the fake clock stopped advancing although no goroutine of the bubble waits for a lock"
				if busy {
					why = "goroutines of the bubble were runnable in every snapshot but the scenario did not finish within two minutes (machine overloaded)"
				}
				fmt.Printf("HARNESS-WEDGE: %s (runtime/harness/environment issue, not a verdict). Goroutines:\n%s\n", why, st)
				if wedgeUnit != nil {
					wedgeUnit.Add("inconclusive", 1)
					wedgeUnit.Flush()
				}
				os.Exit(3)
			}
			if wedgeUnit != nil {
				fmt.Println(wedgeUnit.Fail(sc, "scenario made no progress for %d s of real time on the fake clock, every goroutine of the scenario is blocked and at least one waits for a lock: a request is blocked while holding (or waiting for) the broker's lock, so no request can complete any more. Goroutines:\n%s", 30+15*attempt, st))
				wedgeUnit.Flush()
			}
			os.Exit(1)
		}
	}()
	return func() { close(done) }
}

func runScenario(t *testing.T, ctx *BrokerContext, sc *scenario, extra func(ctx *BrokerContext, mux http.Handler)) (h *history) {
	h = &history{Sc: sc, Res: make([]result, len(sc.Events))}
	defer watchdog(sc)()
	var mu sync.Mutex
	func() {
		defer func() {
			if r := recover(); r != nil {
				msg := fmt.Sprint(r)
				if strings.Contains(msg, "deadlock") || strings.Contains(msg, "blocked goroutines remain") {
					h.Hung = true
				} else {
					h.Fatal = msg
				}
			}
		}()
		synctest.Test(t, func(st *testing.T) {
			start := time.Now()
			now := func() int64 { return int64(time.Since(start)) }
			ctx.proxyPolls = make(chan *ProxyPoll)
			go ctx.Broker()
			mux := newMux(ctx)
			var last int64
			for k := range sc.Events {
				e := &sc.Events[k]
				if e.At > last {
					last = e.At
				}
				go func(k int) {
					time.Sleep(time.Duration(e.At))
					var r result
					r.Started = true
					r.Start = now()
					mu.Lock()
					h.Res[k] = r
					mu.Unlock()
					switch e.Kind {
					case "poll":
						doPoll(ctx, mux, e, &r, now, func() {
							mu.Lock()
							h.Res[k] = r
							mu.Unlock()
						})
					case "client":
						doClient(ctx, mux, e, &r, now)
					case "answer":
						doAnswer(ctx, mux, e.Door, e.Sid, e.Answer, &r, now)
					case "http":
						rec, pan := serve(mux, e.Method, e.Path, e.Headers, e.Body, e.Remote, e.Chunked)
						r.Panic, r.Status, r.Raw = pan, rec.Code, rec.Body.Bytes()
						r.End = now()
						r.Done = true
					}
					mu.Lock()
					h.Res[k] = r
					mu.Unlock()
				}(k)
			}
			time.Sleep(time.Duration(last) + 60*time.Second)
			synctest.Wait()
			// post-state
			i := &IPC{ctx}
			i.Debug(new(interface{}), &h.Post.Debug)
			ctx.snowflakeLock.Lock()
			h.Post.HeapLen, h.Post.RHeapLen, h.Post.IDs = ctx.snowflakes.Len(), ctx.restrictedSnowflakes.Len(), len(ctx.idToSnowflake)
			ctx.snowflakeLock.Unlock()
			h.Post.GaugeSum = gaugeSum(ctx)
			for n, nat := range []string{"unknown", "restricted", "unrestricted"} {
				nat := nat
				ev := event{Kind: "client", Offer: "fresh-" + nat, NAT: &nat, Door: "ipc"}
				if len(sc.Bridges) > 0 {
					ev.FP = sc.Bridges[0].FP // the default bridge need not be in a generated list
				}
				var r result
				done := make(chan struct{})
				go func() { doClient(ctx, mux, &ev, &r, now); close(done) }()
				select {
				case <-done:
					h.Post.FreshDenied[n] = r.Denied
					h.Post.FreshReplies[n] = fmt.Sprintf("answer=%q err=%q ipcerr=%q", r.AnswerGot, r.ErrGot, r.IPCErr)
				case <-time.After(30 * time.Second):
					h.Post.FreshReplies[n] = "no response within 30 s"
				}
			}
			if extra != nil {
				extra(ctx, mux)
			}
			close(ctx.proxyPolls)
			mu.Lock()
			defer mu.Unlock()
		})
	}()
	// requests that never finished keep Done == false; mark started-but-unfinished ones
	mu.Lock()
	defer mu.Unlock()
	return h
}

func strp(s string) *string { return &s }

func natOf(p *string) string {
	if p == nil || *p == "" {
		return "unknown"
	}
	return *p
}
