//go:build go1.25

// C04 Every broker request completes in bounded time; no ghost proxies.
package main

import (
	"fmt"
	"strings"
	"testing"

	"pgregory.net/rapid"
	"verif.local/vstat"
)

// instants around the protocol timers (relative offsets in ns)
var tieOffsets = []int64{-1, 0, 0, 0, 1}
var grid = []int64{0, 1, 5 * sec, 10*sec - 1, 10 * sec, 10*sec + 1, 15 * sec, 20*sec - 1, 20 * sec, 20*sec + 1, 25 * sec}
var natWire = []*string{nil, strp(""), strp("unknown"), strp("restricted"), strp("unrestricted"), strp("unrestricted"),
	strp("unknown"), strp("restricted"), strp("unrestricted"), strp("unrestricted"),
	// not NAT types (the three names are lower case): such requests are refused
	strp("Unrestricted"), strp("RESTRICTED"), strp("bogus")}
var proxyTypes = []string{"standalone", "webext", "badge", "iptproxy", "", "custom"}

// boundedBound is the response-time bound in fake nanoseconds: the 10 s protocol
// wait plus slack, far below two waits.
const boundedBound = 12 * sec

func checkBounded(h *history) error {
	if h.Fatal != "" {
		return fmt.Errorf("scenario aborted: %s", h.Fatal)
	}
	for k, r := range h.Res {
		e := h.Sc.Events[k]
		if r.Panic != "" {
			return fmt.Errorf("event #%d (%s at %s): handler panicked: %s", k, e.Kind, dur(e.At), r.Panic)
		}
		if !r.Started {
			return fmt.Errorf("event #%d (%s at %s) never started", k, e.Kind, dur(e.At))
		}
		if e.Kind == "poll" {
			// the poll itself
			if !r.PollDone {
				return fmt.Errorf("event #%d: proxy poll %q issued at %s never received a response (60 s after the last event)", k, e.Sid, dur(e.At))
			}
			if r.End-r.Start > boundedBound {
				return fmt.Errorf("event #%d: proxy poll %q took %s", k, e.Sid, dur(r.End-r.Start))
			}
			if r.AnsPosted {
				a := r.AnsResult
				if !a.Done {
					return fmt.Errorf("event #%d: answer of proxy %q posted at %s never received a response", k, e.Sid, dur(a.Start))
				}
				if a.End-a.Start > boundedBound {
					return fmt.Errorf("event #%d: answer of proxy %q took %s", k, e.Sid, dur(a.End-a.Start))
				}
			} else if !r.Done {
				return fmt.Errorf("event #%d: proxy %q did not finish", k, e.Sid)
			}
			continue
		}
		if !r.Done {
			return fmt.Errorf("event #%d: %s request issued at %s never received a response (60 s after the last event)", k, e.Kind, dur(e.At))
		}
		if r.End-r.Start > boundedBound {
			return fmt.Errorf("event #%d: %s request issued at %s took %s", k, e.Kind, dur(e.At), dur(r.End-r.Start))
		}
	}
	if h.Hung {
		return fmt.Errorf("goroutines of the broker were still blocked when the scenario ended")
	}
	return nil
}

func checkNoGhosts(h *history) error {
	p := h.Post
	if !strings.HasPrefix(p.Debug, "current snowflakes available: 0\n") {
		return fmt.Errorf("after all requests completed /debug says: %q", firstLine(p.Debug))
	}
	if p.GaugeSum != 0 {
		return fmt.Errorf("after all requests completed the snowflake_available_proxies gauges sum to %v", p.GaugeSum)
	}
	if p.HeapLen != 0 || p.RHeapLen != 0 || p.IDs != 0 {
		return fmt.Errorf("after all requests completed the broker still holds registrations: heap %d, restricted heap %d, ids %d", p.HeapLen, p.RHeapLen, p.IDs)
	}
	for n, nat := range []string{"unknown", "restricted", "unrestricted"} {
		if !p.FreshDenied[n] {
			return fmt.Errorf("after all requests completed a fresh %s client is not told 'no proxies': %s", nat, p.FreshReplies[n])
		}
	}
	return nil
}

func firstLine(s string) string { return strings.SplitN(s, "\n", 2)[0] }

func dur(ns int64) string {
	s := ns / sec
	r := ns % sec
	if r == 0 {
		return fmt.Sprintf("%ds", s)
	}
	if r > sec/2 {
		return fmt.Sprintf("%ds-%dns", s+1, sec-r)
	}
	return fmt.Sprintf("%ds+%dns", s, r)
}

// runReps runs the scenario Reps times (ties are real races: interleavings are
// sampled by repetition) and applies check to every history.
func runReps(t *testing.T, sc scenario, check func(h *history) error) error {
	reps := sc.Reps
	if reps < 1 {
		reps = 1
	}
	for rep := 0; rep < reps; rep++ {
		ctx, err := cachedContext(&sc)
		if err != nil {
			return fmt.Errorf("harness: cannot build broker context: %v", err)
		}
		h := runScenario(t, ctx, &sc, nil)
		err = check(h)
		if err == nil {
			err = checkNoGhosts(h) // also keeps the cached context clean for the next case
		}
		if err != nil {
			dropContext(&sc) // state may be dirty
			return fmt.Errorf("repetition %d/%d: %v", rep+1, reps, err)
		}
	}
	return nil
}

func runC04(t *testing.T, sc scenario) error {
	return runReps(t, sc, func(h *history) error {
		if err := checkBounded(h); err != nil {
			return err
		}
		return checkNoGhosts(h)
	})
}

// ---------------------------------------------------------------------------
// generator: herds at timeout boundaries mixed with prompt traffic

// sidStyle turns the short unique name into a session id as proxies really send them:
// short, 22 characters of base64, or long ids that share a long common prefix and differ
// only at the end (pairwise distinct in every style).
func sidStyle(t *rapid.T, sid string) string {
	switch rapid.IntRange(0, 5).Draw(t, "sidstyle") {
	case 0:
		return "ymbcCMto7KHNGYlp/" + sid
	case 1:
		return "installation-0123456789abcdef0123456789abcdef/" + sid
	case 2:
		return strings.Repeat("S", 64) + sid
	default:
		return sid
	}
}

func genPollEvent(t *rapid.T, at int64, sid string) event {
	e := event{At: at, Kind: "poll", Sid: sidStyle(t, sid)}
	e.NAT = rapid.SampledFrom(natWire).Draw(t, "pnat")
	e.Type = rapid.SampledFrom(proxyTypes).Draw(t, "ptype")
	e.Clients = rapid.SampledFrom([]int{0, 0, 8, 16, 64}).Draw(t, "clients")
	e.Pattern = strp("")
	e.Door = rapid.SampledFrom([]string{"ipc", "http"}).Draw(t, "pdoor")
	if e.Door == "http" {
		e.Chunked = rapid.IntRange(0, 3).Draw(t, "pchunked") == 0
	}
	switch rapid.IntRange(0, 5).Draw(t, "ansmode") {
	case 0:
		e.AnsMode = "never"
	case 1:
		e.AnsMode = "wrongid"
	case 2, 3:
		e.AnsMode = "delay"
		e.AnsDelay = 10*sec + rapid.SampledFrom(tieOffsets).Draw(t, "anstie")
	case 4:
		e.AnsMode = "delay"
		e.AnsDelay = rapid.SampledFrom([]int64{1, sec, 5 * sec, 9 * sec, 11 * sec, 15 * sec}).Draw(t, "ansdelay")
	default:
		e.AnsMode = "prompt"
	}
	return e
}

func genClientEvent(t *rapid.T, at int64, id int) event {
	e := event{At: at, Kind: "client"}
	e.NAT = rapid.SampledFrom(natWire).Draw(t, "cnat")
	e.Door = rapid.SampledFrom([]string{"ipc", "post", "legacy", "amp"}).Draw(t, "cdoor")
	if e.Door == "post" || e.Door == "legacy" {
		e.Chunked = rapid.IntRange(0, 3).Draw(t, "cchunked") == 0
	}
	e.Offer = fmt.Sprintf("{\"type\":\"offer\",\"sdp\":\"client-%d\"}", id)
	// most clients name no bridge or the default one; some name an unlisted or malformed
	// fingerprint (they must be turned away without leaving anything behind)
	if e.Door != "legacy" {
		e.FP = rapid.SampledFrom([]string{"", "", "", "", defaultBridgeFP, "FFFFFFFFFFFFFFFFFFFFFFFFFFFFFFFFFFFFFFFF", "8838024498816A039FCBBAB14E6F40A0843051FA", "zz", "2B280B23E1107BB62ABFC40DDCC8824814F80A"}).Draw(t, "cfp")
	}
	return e
}

func genHerdScenario(t *rapid.T) (scenario, []string) {
	var sc scenario
	var labels []string
	ngroups := rapid.IntRange(1, 3).Draw(t, "ngroups")
	sid, cid := 0, 0
	for g := 0; g < ngroups; g++ {
		t0 := rapid.SampledFrom([]int64{0, 0, 3 * sec, 7 * sec, 12 * sec}).Draw(t, "t0")
		np := rapid.IntRange(1, 8).Draw(t, "nproxies")
		for i := 0; i < np; i++ {
			sid++
			sc.Events = append(sc.Events, genPollEvent(t, t0, fmt.Sprintf("p%d", sid)))
		}
		switch rapid.IntRange(0, 3).Draw(t, "clientphase") {
		case 0: // clients well inside the poll window
			labels = append(labels, "clients inside poll window")
			nc := rapid.IntRange(1, 8).Draw(t, "nclients")
			for i := 0; i < nc; i++ {
				cid++
				sc.Events = append(sc.Events, genClientEvent(t, t0+rapid.SampledFrom([]int64{0, 1, sec, 5 * sec, 9 * sec}).Draw(t, "cdelay"), cid))
			}
		default: // clients at the proxy timeout
			labels = append(labels, "tie: client at proxy-poll timeout")
			nc := rapid.IntRange(1, 8).Draw(t, "nclients")
			for i := 0; i < nc; i++ {
				cid++
				sc.Events = append(sc.Events, genClientEvent(t, t0+10*sec+rapid.SampledFrom(tieOffsets).Draw(t, "ctie"), cid))
			}
		}
	}
	// stray answers
	if rapid.IntRange(0, 3).Draw(t, "stray") == 0 {
		labels = append(labels, "stray answer")
		sc.Events = append(sc.Events, event{At: rapid.SampledFrom(grid).Draw(t, "strayat"), Kind: "answer", Sid: straySid(t, &sc), Answer: "stray", Door: rapid.SampledFrom([]string{"ipc", "http"}).Draw(t, "straydoor")})
	}
	for _, e := range sc.Events {
		if e.Kind == "poll" && e.AnsMode == "delay" && e.AnsDelay >= 10*sec-1 && e.AnsDelay <= 10*sec+1 {
			labels = append(labels, "tie: answer at client timeout")
			break
		}
	}
	sc.Reps = vstat.Pick(6, 20)
	return sc, labels
}

func hasTie(labels []string) bool {
	for _, l := range labels {
		if strings.HasPrefix(l, "tie:") {
			return true
		}
	}
	return false
}

var uC04 = vstat.New("C04", "c04_herds")

func init() { vstat.Register(uC04, runC04) }

func TestVerifC04Herds(t *testing.T) {
	defer uC04.Flush()
	wedgeUnit = uC04
	rapid.Check(t, func(rt *rapid.T) {
		sc, labels := genHerdScenario(rt)
		uC04.Journal(sc)
		vstat.Run(uC04, t, rt, sc, hasTie(labels), labels, runC04)
	})
	uC04.JournalDone()
}

func TestVerifReplay(t *testing.T) { vstat.RunReplays(t) }
