//go:build go1.25

// C19 (periodic part): the broker's OWN metrics goroutine (a 24-hour ticker: print, then reset) on the fake
// clock. Events are spread over 1-4 days; after every day boundary the lines the goroutine wrote must carry
// the counts of THAT day only, rounded up to 8, and the distinct addresses of that day.
package main

import (
	"bytes"
	"fmt"
	"log"
	"strings"
	"sync"
	"testing"
	"testing/synctest"
	"time"

	"git.torproject.org/pluggable-transports/snowflake.git/v2/common/messages"
	"pgregory.net/rapid"
	"verif.local/vstat"
)

type dayLoad struct {
	DeniedRestricted   int    `json:"denied_restricted"`   // client polls with NAT restricted/unknown while no proxy waits
	DeniedUnrestricted int    `json:"denied_unrestricted"` // client polls with NAT unrestricted
	IdlePolls          int    `json:"idle_polls"`          // proxy polls that nobody matches (they idle out after 10 s)
	Addresses          int    `json:"addresses"`           // distinct proxy addresses among the idle polls (<= IdlePolls)
	ProxyType          string `json:"proxy_type"`          // type the day's proxies announce (known, empty or unrecognised)
}

type periodicCase struct {
	Days []dayLoad `json:"days"`
}

type lockedLog struct {
	mu sync.Mutex
	b  bytes.Buffer
}

func (l *lockedLog) Write(p []byte) (int, error) {
	l.mu.Lock()
	defer l.mu.Unlock()
	return l.b.Write(p)
}

func (l *lockedLog) take() string {
	l.mu.Lock()
	defer l.mu.Unlock()
	s := l.b.String()
	l.b.Reset()
	return s
}

func runPeriodic(t *testing.T, c periodicCase) (verdict error) {
	defer func() {
		// the broker's goroutines (ticker loop, Broker loop) never end: the bubble cannot finish cleanly
		if r := recover(); r != nil {
			if msg := fmt.Sprint(r); !strings.Contains(msg, "blocked goroutines remain") && !strings.Contains(msg, "deadlock") {
				panic(r)
			}
		}
	}()
	synctest.Test(t, func(st *testing.T) {
		out := &lockedLog{}
		ctx := NewBrokerContext(log.New(out, "", 0))
		go ctx.Broker()
		ipc := &IPC{ctx}
		start := time.Now()
		sid := 0
		for d, load := range c.Days {
			var wg sync.WaitGroup
			for k := 0; k < load.IdlePolls; k++ {
				sid++
				body, _ := messages.EncodeProxyPollRequestWithRelayPrefix(fmt.Sprintf("day%d-p%d", d, sid), load.ProxyType, "unrestricted", 0, "")
				addr := fmt.Sprintf("203.0.%d.%d:1", d, k%max(load.Addresses, 1))
				wg.Add(1)
				go func() {
					defer wg.Done()
					var resp []byte
					ipc.ProxyPolls(messages.Arg{Body: body, RemoteAddr: addr}, &resp)
				}()
			}
			synctest.Wait()
			time.Sleep(15 * time.Second) // the polls idle out
			wg.Wait()
			for k := 0; k < load.DeniedRestricted+load.DeniedUnrestricted; k++ {
				nat := "restricted"
				if k >= load.DeniedRestricted {
					nat = "unrestricted"
				}
				body, _ := (&messages.ClientPollRequest{Offer: "offer", NAT: nat}).EncodeClientPollRequest()
				var resp []byte
				ipc.ClientOffers(messages.Arg{Body: body, RemoteAddr: ""}, &resp)
			}
			// into the next day: the broker's own goroutine prints and resets at the boundary
			time.Sleep(time.Until(start.Add(time.Duration(d+1)*24*time.Hour + time.Second)))
			synctest.Wait()
			text := out.take()
			lg := parseLog(text)
			want := map[string]int{
				"client-denied-count":              ceil8(load.DeniedRestricted + load.DeniedUnrestricted),
				"client-restricted-denied-count":   ceil8(load.DeniedRestricted),
				"client-unrestricted-denied-count": ceil8(load.DeniedUnrestricted),
				"snowflake-idle-count":             ceil8(load.IdlePolls),
				"client-snowflake-match-count":     0,
			}
			if load.IdlePolls > 0 {
				want["snowflake-ips-total"] = load.Addresses
			} else {
				want["snowflake-ips-total"] = 0
			}
			if !strings.Contains(text, "snowflake-stats-end") {
				verdict = fmt.Errorf("day %d: the broker's metrics goroutine wrote nothing at the 24 h boundary", d+1)
				return
			}
			for k, w := range want {
				if g, ok := lg[k]; !ok || g != w {
					verdict = fmt.Errorf("day %d (of %d; loads %+v): the metrics goroutine published %s %d (present=%v), the events of that day alone give %d", d+1, len(c.Days), c.Days, k, g, ok, w)
					return
				}
			}
		}
	})
	return verdict
}

var uPeriodic = vstat.New("C19", "c19_periodic")

func init() { vstat.Register(uPeriodic, runPeriodic) }

func TestVerifC19Periodic(t *testing.T) {
	defer uPeriodic.Flush()
	rapid.Check(t, func(rt *rapid.T) {
		var c periodicCase
		n := rapid.IntRange(1, 4).Draw(rt, "days")
		busy := 0
		for d := 0; d < n; d++ {
			l := dayLoad{
				DeniedRestricted:   rapid.SampledFrom([]int{0, 0, 1, 7, 8, 9, 20}).Draw(rt, "dr"),
				DeniedUnrestricted: rapid.SampledFrom([]int{0, 0, 1, 8, 13}).Draw(rt, "du"),
				IdlePolls:          rapid.SampledFrom([]int{0, 0, 1, 3, 9, 17}).Draw(rt, "idle"),
			}
			if l.IdlePolls > 0 {
				l.Addresses = rapid.IntRange(1, l.IdlePolls).Draw(rt, "addrs")
				l.ProxyType = rapid.SampledFrom([]string{"standalone", "standalone", "webext", "badge", "iptproxy", "", "my-embedder"}).Draw(rt, "ptype")
			}
			if l.DeniedRestricted+l.DeniedUnrestricted+l.IdlePolls > 0 {
				busy++
			}
			c.Days = append(c.Days, l)
		}
		uPeriodic.Journal(c)
		vstat.Run(uPeriodic, t, rt, c, n >= 2 && busy >= 1, []string{fmt.Sprintf("days=%d", n)}, runPeriodic)
	})
	uPeriodic.JournalDone()
}
