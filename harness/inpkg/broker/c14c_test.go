//go:build go1.25

// C14 (concurrent part): the requests of a generated population of proxies, clients, /debug,
// /metrics and /prometheus readers and junk senders run at the same time through the real handlers
// (real clock; every poll is matched promptly, so nothing waits for a 10 s time-out). Every request
// must get a response, no handler may panic, the process must survive (a fatal runtime error kills
// the test process: attributed through the case journal) and the broker must still answer afterwards.
package main

import (
	"encoding/json"
	"fmt"
	"strings"
	"sync"
	"sync/atomic"
	"testing"
	"time"

	"git.torproject.org/pluggable-transports/snowflake.git/v2/common/messages"
	"pgregory.net/rapid"
	"verif.local/vstat"
)

type concCase struct {
	Pairs     int `json:"pairs"`     // proxy (poll, then answer) + client pairs per round
	Debuggers int `json:"debuggers"` // goroutines polling /debug
	Readers   int `json:"readers"`   // goroutines polling /metrics and /prometheus
	Junk      int `json:"junk"`      // goroutines sending malformed bodies
	Rounds    int `json:"rounds"`
	Lonely    int `json:"lonely"` // extra proxy polls per round that nobody matches (they idle out after 10 s, concurrently with later rounds)
}

var concCtx *BrokerContext

func runConcurrent(_ *testing.T, c concCase) error {
	if concCtx == nil {
		ctx, err := newContext(&scenario{}, &strings.Builder{})
		if err != nil {
			return fmt.Errorf("harness: %v", err)
		}
		go ctx.Broker()
		concCtx = ctx
	}
	ctx := concCtx
	mux := newMux(ctx)
	var firstErr atomic.Value
	fail := func(format string, a ...any) { firstErr.CompareAndSwap(nil, fmt.Sprintf(format, a...)) }
	do := func(method, path string, hdr map[string]string, body []byte, remote string) string {
		rec, pan := serve(mux, method, path, hdr, body, remote)
		if pan != "" {
			fail("%s %s: handler panicked: %s", method, path, pan)
			return ""
		}
		if rec.Code < 100 || rec.Code > 599 {
			fail("%s %s answered with status %d", method, path, rec.Code)
		}
		return rec.Body.String()
	}
	caseID := atomic.AddInt64(&concSeq, 1)
	stop := make(chan struct{})
	var bg sync.WaitGroup
	poller := func(paths ...string) {
		defer bg.Done()
		for {
			select {
			case <-stop:
				return
			default:
			}
			for _, p := range paths {
				do("GET", p, nil, nil, "")
			}
		}
	}
	for i := 0; i < c.Debuggers; i++ {
		bg.Add(1)
		go poller("/debug")
	}
	for i := 0; i < c.Readers; i++ {
		bg.Add(1)
		go poller("/metrics", "/prometheus")
	}
	for i := 0; i < c.Junk; i++ {
		bg.Add(1)
		go func(i int) {
			defer bg.Done()
			bodies := [][]byte{[]byte("{"), []byte("1.0\nnull"), []byte(`{"Sid":"","Version":"1.0"}`), nil, []byte(strings.Repeat("x", 100001))}
			for k := 0; ; k++ {
				select {
				case <-stop:
					return
				default:
				}
				do("POST", []string{"/proxy", "/client", "/answer"}[k%3], nil, bodies[k%len(bodies)], "")
			}
		}(i)
	}
	var maxInflight int64
	for round := 0; round < c.Rounds; round++ {
		var wg sync.WaitGroup
		var inflight int64
		for k := 0; k < c.Lonely; k++ {
			sid := fmt.Sprintf("c%d-r%d-lonely%d", caseID, round, k)
			bg.Add(1)
			go func() { // unmatched: its poll ends "no match" after the broker's own time-out
				defer bg.Done()
				body, _ := messages.EncodeProxyPollRequestWithRelayPrefix(sid, "webext", "restricted", 0, "")
				do("POST", "/proxy", nil, body, "198.51.100.9:9")
			}()
		}
		for k := 0; k < c.Pairs; k++ {
			wg.Add(2)
			sid := fmt.Sprintf("c%d-r%d-p%d", caseID, round, k)
			go func() {
				defer wg.Done()
				cur := atomic.AddInt64(&inflight, 1)
				for {
					m := atomic.LoadInt64(&maxInflight)
					if cur <= m || atomic.CompareAndSwapInt64(&maxInflight, m, cur) {
						break
					}
				}
				defer atomic.AddInt64(&inflight, -1)
				body, _ := messages.EncodeProxyPollRequestWithRelayPrefix(sid, "standalone", "unrestricted", 0, "")
				out := do("POST", "/proxy", nil, body, fmt.Sprintf("203.0.%d.%d:1", round%200, k%250))
				var pr messages.ProxyPollResponse
				if json.Unmarshal([]byte(out), &pr) == nil && pr.Status == "client match" {
					ab, _ := messages.EncodeAnswerRequest("answer-"+sid, sid)
					do("POST", "/answer", nil, ab, "")
				}
			}()
			go func() {
				defer wg.Done()
				for try := 0; try < 400; try++ {
					cb, _ := (&messages.ClientPollRequest{Offer: "offer-" + sid, NAT: "restricted"}).EncodeClientPollRequest()
					if strings.Contains(do("POST", "/client", nil, cb, ""), "answer") {
						return
					}
					time.Sleep(time.Millisecond)
				}
			}()
		}
		done := make(chan struct{})
		go func() { wg.Wait(); close(done) }()
		select {
		case <-done:
		case <-time.After(60 * time.Second):
			close(stop)
			return fmt.Errorf("round %d: %d proxy/client pairs whose polls are matched promptly had not all completed after 60 s", round, c.Pairs)
		}
	}
	close(stop)
	bgDone := make(chan struct{})
	go func() { bg.Wait(); close(bgDone) }()
	select {
	case <-bgDone:
	case <-time.After(40 * time.Second):
		return fmt.Errorf("a /debug, /metrics, junk or unmatched poll request had not completed 40 s after the load ended (unmatched polls end after 10 s)")
	}
	if e := firstErr.Load(); e != nil {
		return fmt.Errorf("%s", e.(string))
	}
	if out := do("GET", "/robots.txt", nil, nil, ""); !strings.Contains(out, "User-agent") {
		return fmt.Errorf("after the load /robots.txt answers %q", out)
	}
	uConc.Add("max concurrent proxy polls", maxInflight)
	return nil
}

var concSeq int64

var uConc = vstat.New("C14", "c14_concurrent")

func init() { vstat.Register(uConc, runConcurrent) }

func TestVerifC14Concurrent(t *testing.T) {
	defer uConc.Flush()
	start := time.Now()
	rapid.Check(t, func(rt *rapid.T) {
		if time.Since(start) > time.Duration(vstat.Pick(40, 400))*time.Second {
			return // time budget of this real-time unit used up
		}
		c := concCase{
			Pairs:     rapid.IntRange(1, 32).Draw(rt, "pairs"),
			Debuggers: rapid.IntRange(0, 4).Draw(rt, "debuggers"),
			Readers:   rapid.IntRange(0, 2).Draw(rt, "readers"),
			Junk:      rapid.IntRange(0, 2).Draw(rt, "junk"),
			Rounds:    rapid.IntRange(1, 6).Draw(rt, "rounds"),
			Lonely:    rapid.SampledFrom([]int{0, 0, 0, 1, 3}).Draw(rt, "lonely"),
		}
		uConc.Journal(c)
		vstat.Run(uConc, t, rt, c, c.Pairs >= 2 && c.Debuggers+c.Readers+c.Junk >= 1, []string{fmt.Sprintf("debug pollers=%d", c.Debuggers), fmt.Sprintf("lonely polls per round=%d", c.Lonely)}, runConcurrent)
	})
	uConc.JournalDone()
}
