//go:build go1.25

// C20 (proxy traffic counters): the proxy's periodic summary logger receives "connection over"
// events from many session goroutines through the shared event dispatcher while its own timer
// goroutine reads and resets the sums. Oracles: the race detector (this unit runs in the -race
// build), and conservation: the connection counts of all summary lines add up to the number of
// events emitted - none lost, none counted twice.
package snowflake_proxy

import (
	"bytes"
	"fmt"
	"regexp"
	"strconv"
	"sync"
	"testing"
	"time"

	"git.torproject.org/pluggable-transports/snowflake.git/v2/common/event"
	"pgregory.net/rapid"
	"verif.local/vstat"
)

type elCase struct {
	Ticking  bool  `json:"ticking"`  // summary period of 1 ms (ticks interleave with events) or of one hour (no tick)
	Emitters []int `json:"emitters"` // per session goroutine: number of sessions it ends
	Together bool  `json:"together"` // all emitters are released at the same instant
	Traffic  int   `json:"traffic"`
}

type lockedBuf struct {
	mu sync.Mutex
	b  bytes.Buffer
}

func (l *lockedBuf) Write(p []byte) (int, error) {
	l.mu.Lock()
	defer l.mu.Unlock()
	return l.b.Write(p)
}

func (l *lockedBuf) String() string {
	l.mu.Lock()
	defer l.mu.Unlock()
	return l.b.String()
}

var summaryRe = regexp.MustCompile(`there were (\d+) connections`)

func runEventLogger(_ *testing.T, c elCase) error {
	period := time.Hour
	if c.Ticking {
		period = time.Millisecond
	}
	out := &lockedBuf{}
	el := NewProxyEventLogger(period, out)
	bus := event.NewSnowflakeEventDispatcher()
	bus.AddSnowflakeEventListener(el)
	start := make(chan struct{})
	var wg sync.WaitGroup
	total := 0
	for _, n := range c.Emitters {
		total += n
		wg.Add(1)
		go func(n int) {
			defer wg.Done()
			if c.Together {
				<-start
			}
			for k := 0; k < n; k++ {
				bus.OnNewSnowflakeEvent(event.EventOnProxyConnectionOver{InboundTraffic: c.Traffic, OutboundTraffic: c.Traffic / 2})
				if k%16 == 15 {
					time.Sleep(200 * time.Microsecond) // let ticks fall between the events
				}
			}
		}(n)
	}
	close(start)
	wg.Wait()
	reported := func() int {
		sum := 0
		for _, m := range summaryRe.FindAllStringSubmatch(out.String(), -1) {
			n, _ := strconv.Atoi(m[1])
			sum += n
		}
		return sum
	}
	var verdict error
	if c.Ticking {
		deadline := time.Now().Add(3 * time.Second)
		for reported() < total && time.Now().Before(deadline) {
			time.Sleep(2 * time.Millisecond)
		}
		time.Sleep(5 * time.Millisecond)
		if got := reported(); got != total {
			verdict = fmt.Errorf("%d sessions ended (emitters %v) while the summary logger ticked every %v; its summary lines account for %d connections", total, c.Emitters, period, got)
		}
	}
	if cl, ok := el.(interface{ Close() error }); ok {
		cl.Close()
	}
	return verdict
}

var uEventLogger = vstat.New("C20", "c20_eventlogger")

func init() { vstat.Register(uEventLogger, runEventLogger) }

func TestVerifC20EventLogger(t *testing.T) {
	defer uEventLogger.Flush()
	rapid.Check(t, func(rt *rapid.T) {
		c := elCase{Ticking: rapid.Bool().Draw(rt, "ticking"), Together: rapid.Bool().Draw(rt, "together"), Traffic: rapid.SampledFrom([]int{0, 1, 999, 1000, 123456789}).Draw(rt, "traffic")}
		n := rapid.IntRange(1, 12).Draw(rt, "emitters")
		for i := 0; i < n; i++ {
			c.Emitters = append(c.Emitters, rapid.SampledFrom([]int{1, 1, 5, 40, 300}).Draw(rt, "n"))
		}
		lbl := "summary period 1h (no tick)"
		if c.Ticking {
			lbl = "summary period 1ms (ticks between events)"
		}
		vstat.Run(uEventLogger, t, rt, c, n >= 2, []string{lbl}, runEventLogger)
	})
}
