//go:build go1.25

// C16 Proxy honours its capacity and never leaks a session slot.
// C06 (c) the proxy refuses relay URLs outside its pattern / without TLS.
//
// One proxy per test process (the package keeps tokens, broker and config in
// globals); the driver shards by process. Real time, real pion, scripted broker.
package snowflake_proxy

import (
	"bytes"
	"encoding/json"
	"errors"
	"fmt"
	"io"
	"net"
	"net/http"
	"net/http/httptest"
	"net/url"
	"strings"
	"sync"
	"sync/atomic"
	"testing"
	"time"

	"git.torproject.org/pluggable-transports/snowflake.git/v2/common/event"
	"git.torproject.org/pluggable-transports/snowflake.git/v2/common/messages"
	"git.torproject.org/pluggable-transports/snowflake.git/v2/common/util"
	"github.com/gorilla/websocket"
	"github.com/pion/webrtc/v3"
	"pgregory.net/rapid"
	"verif.local/vstat"
)

type outcome struct {
	Kind     string `json:"kind"`
	RelayURL string `json:"relay,omitempty"`
	Hold     bool   `json:"hold,omitempty"` // connect kinds: keep the session open (fills capacity)
	Offer    string `json:"offer,omitempty"` // kind offer-custom: the offer handed to the proxy, verbatim
	// connect kinds: the broker passes the answer on to the client at once but its HTTP reply to the
	// proxy's POST /answer arrives this much later (the client is connected long before the reply)
	AnswerDelayMs int `json:"answer_delay_ms,omitempty"`
}

type sessCase struct {
	Capacity int       `json:"capacity"`
	Pattern  string    `json:"pattern"`
	NonTLS   bool      `json:"nontls"`
	Outcomes []outcome `json:"outcomes"`
}

// ---------------------------------------------------------------------------
// scripted broker (an http.RoundTripper: no sockets)

type rtFunc func(*http.Request) (*http.Response, error)

func (f rtFunc) RoundTrip(r *http.Request) (*http.Response, error) { return f(r) }

func httpResp(code int, body string) *http.Response {
	return &http.Response{StatusCode: code, Status: fmt.Sprint(code), Body: io.NopCloser(strings.NewReader(body)), Header: http.Header{}}
}

type harnessClient struct {
	pc   *webrtc.PeerConnection
	dc   *webrtc.DataChannel
	open chan struct{}
	msgs chan []byte
	connected chan struct{} // closed once the PeerConnection is connected
}

// negotiated: the client's only data channel is negotiated out of band, so it completes ICE and
// DTLS but never announces a data channel to the proxy.
func newHarnessClient(negotiated bool) (*harnessClient, string, error) {
	pc, err := webrtc.NewPeerConnection(webrtc.Configuration{})
	if err != nil {
		return nil, "", err
	}
	hc := &harnessClient{pc: pc, open: make(chan struct{}), msgs: make(chan []byte, 64), connected: make(chan struct{})}
	var once sync.Once
	pc.OnConnectionStateChange(func(st webrtc.PeerConnectionState) {
		if st == webrtc.PeerConnectionStateConnected {
			once.Do(func() { close(hc.connected) })
		}
	})
	var init *webrtc.DataChannelInit
	if negotiated {
		yes, id := true, uint16(5)
		init = &webrtc.DataChannelInit{Negotiated: &yes, ID: &id}
	}
	dc, err := pc.CreateDataChannel("verif", init)
	if err != nil {
		return nil, "", err
	}
	hc.dc = dc
	dc.OnOpen(func() { close(hc.open) })
	dc.OnMessage(func(m webrtc.DataChannelMessage) {
		select {
		case hc.msgs <- append([]byte{}, m.Data...):
		default:
		}
	})
	done := webrtc.GatheringCompletePromise(pc)
	offer, err := pc.CreateOffer(nil)
	if err != nil {
		return nil, "", err
	}
	if err := pc.SetLocalDescription(offer); err != nil {
		return nil, "", err
	}
	<-done
	s, err := util.SerializeSessionDescription(pc.LocalDescription())
	return hc, s, err
}

type rig struct {
	mu        sync.Mutex
	cur       *outcome
	curClient *harnessClient
	polls     int
	answers   int
	inUse     int64 // model: slots in use, maintained by the script
	violation string
	relay     *httptest.Server
	relayConns int64
	relayIPs  []string
	decoy     net.Listener
	decoyConns int64
	realOffer string // cached real offer for refusal cases
}

func (r *rig) fail(format string, a ...any) {
	r.mu.Lock()
	defer r.mu.Unlock()
	if r.violation == "" {
		r.violation = fmt.Sprintf(format, a...)
	}
}

func (r *rig) roundTrip(req *http.Request) (*http.Response, error) {
	body, _ := io.ReadAll(req.Body)
	r.mu.Lock()
	o := r.cur
	r.mu.Unlock()
	switch {
	case strings.HasSuffix(req.URL.Path, "/proxy"):
		r.mu.Lock()
		r.polls++
		inUse := r.inUse
		r.mu.Unlock()
		_, _, _, clients, _, _, err := messages.DecodeProxyPollRequestWithRelayPrefix(body)
		if err != nil {
			r.fail("proxy sent an invalid poll: %v (%s)", err, body)
		}
		if clients%8 != 0 || clients < 0 || int64(clients) > inUse {
			r.fail("poll reports Clients=%d with %d slots in use: must be a multiple of 8 not exceeding the slots in use", clients, inUse)
		}
		if o == nil {
			return nil, errors.New("no script")
		}
		switch o.Kind {
		case "poll-transport-error":
			return nil, errors.New("connection refused")
		case "poll-500":
			return httpResp(500, "oops"), nil
		case "poll-malformed":
			return httpResp(200, "{not json"), nil
		case "poll-empty":
			return httpResp(200, ""), nil
		case "poll-error-status":
			return httpResp(200, `{"Status":"incorrect relay pattern"}`), nil
		case "poll-huge":
			return httpResp(200, `{"Status":"client match","Offer":"`+strings.Repeat("x", 100100)+`"}`), nil
		case "offer-undecodable":
			b, _ := messages.EncodePollResponseWithRelayURL("this is not a session description", true, "unknown", o.RelayURL, "")
			return httpResp(200, string(b)), nil
		case "offer-type-confusion":
			b, _ := messages.EncodePollResponseWithRelayURL(`{"type":7,"sdp":[]}`, true, "unknown", o.RelayURL, "")
			return httpResp(200, string(b)), nil
		case "offer-garbage-sdp":
			b, _ := messages.EncodePollResponseWithRelayURL(`{"type":"offer","sdp":"garbage"}`, true, "unknown", o.RelayURL, "")
			return httpResp(200, string(b)), nil
		case "offer-parser-panic-sdp":
			// SDP text on which pion's parser panics (D14): must be refused like any undecodable offer
			sd, _ := json.Marshal(map[string]string{"type": "offer", "sdp": "v=0\r\no=- 1 1 IN IP4 0.0.0.0\r\ns=-\r\nt=0 0\r\nr= \r\nm=application 9 UDP/DTLS/SCTP webrtc-datachannel\r\nc=IN IP4 0.0.0.0\r\n"})
			b, _ := messages.EncodePollResponseWithRelayURL(string(sd), true, "unknown", o.RelayURL, "")
			return httpResp(200, string(b)), nil
		case "offer-answer-type":
			b, _ := messages.EncodePollResponseWithRelayURL(`{"type":"answer","sdp":"v=0\r\n"}`, true, "unknown", o.RelayURL, "")
			return httpResp(200, string(b)), nil
		case "offer-custom":
			b, _ := messages.EncodePollResponseWithRelayURL(o.Offer, true, "unknown", o.RelayURL, "")
			return httpResp(200, string(b)), nil
		default:
			// kinds that hand over a real offer
			var offer string
			if o.Kind == "relay-url" {
				offer = r.realOffer
			} else {
				hc, s, err := newHarnessClient(o.Kind == "client-connects-no-datachannel")
				if err != nil {
					return nil, err
				}
				r.mu.Lock()
				r.curClient = hc
				r.mu.Unlock()
				offer = s
			}
			b, _ := messages.EncodePollResponseWithRelayURL(offer, true, "unknown", o.RelayURL, "")
			return httpResp(200, string(b)), nil
		}
	case strings.HasSuffix(req.URL.Path, "/answer"):
		r.mu.Lock()
		r.answers++
		hc := r.curClient
		r.mu.Unlock()
		ans, _, err := messages.DecodeAnswerRequest(body)
		if err != nil {
			r.fail("proxy sent an invalid answer request: %v", err)
		}
		switch o.Kind {
		case "answer-transport-error":
			return nil, errors.New("broken pipe")
		case "answer-client-gone", "relay-url", "offer-custom":
			return httpResp(200, `{"Status":"client gone"}`), nil
		case "answer-500":
			return httpResp(500, ""), nil
		case "answer-malformed":
			return httpResp(200, "}{"), nil
		}
		// the client takes the answer and connects (unless the script says it never does)
		if o.Kind != "client-never-connects" && hc != nil {
			desc, err := util.DeserializeSessionDescription(ans)
			if err != nil {
				r.fail("proxy's answer does not deserialise: %v", err)
			} else if err := hc.pc.SetRemoteDescription(*desc); err != nil {
				r.fail("harness client rejects the proxy's answer: %v", err)
			}
		}
		if o.AnswerDelayMs > 0 {
			time.Sleep(time.Duration(o.AnswerDelayMs) * time.Millisecond)
		}
		return httpResp(200, `{"Status":"success"}`), nil
	}
	return httpResp(404, ""), nil
}

var theRig *rig

func setupRig() *rig {
	if theRig != nil {
		return theRig
	}
	r := &rig{}
	up := websocket.Upgrader{CheckOrigin: func(*http.Request) bool { return true }}
	r.relay = httptest.NewServer(http.HandlerFunc(func(w http.ResponseWriter, req *http.Request) {
		c, err := up.Upgrade(w, req, nil)
		if err != nil {
			return
		}
		atomic.AddInt64(&r.relayConns, 1)
		r.mu.Lock()
		r.relayIPs = append(r.relayIPs, req.URL.Query().Get("client_ip"))
		r.mu.Unlock()
		defer c.Close()
		for {
			mt, p, err := c.ReadMessage()
			if err != nil {
				return
			}
			if c.WriteMessage(mt, append([]byte("echo:"), p...)) != nil {
				return
			}
		}
	}))
	l, err := net.Listen("tcp", "0.0.0.0:0")
	if err != nil {
		panic(err)
	}
	r.decoy = l
	go func() {
		for {
			c, err := l.Accept()
			if err != nil {
				return
			}
			atomic.AddInt64(&r.decoyConns, 1)
			c.Close()
		}
	}()
	hc, offer, err := newHarnessClient(false)
	if err != nil {
		panic(err)
	}
	hc.pc.Close()
	r.realOffer = offer
	theRig = r
	return r
}

func waitUntil(d time.Duration, cond func() bool) bool {
	deadline := time.Now().Add(d)
	for !cond() {
		if time.Now().After(deadline) {
			return cond()
		}
		time.Sleep(2 * time.Millisecond)
	}
	return true
}

func refMember(rule, h string) bool {
	rule = strings.TrimSuffix(rule, "$")
	if strings.HasPrefix(rule, "^") {
		return h == rule[1:]
	}
	return strings.HasSuffix(h, rule)
}

type held struct {
	hc *harnessClient
}

func runSessions(t *testing.T, c sessCase) error {
	r := setupRig()
	r.mu.Lock()
	r.violation, r.inUse, r.cur, r.curClient = "", 0, nil, nil
	r.mu.Unlock()
	// The package keeps tokens, broker and config in globals that session goroutines of an
	// earlier case may still be reading: they are written once per process (again only if a
	// replayed case asks for another capacity).
	if tokens == nil || int(tokens.capacity) != c.Capacity || tokens.count() != 0 || len(tokens.ch) != 0 {
		// (a dirty count can only be left behind by a case that has just failed)
		tokens = newTokens(uint(c.Capacity))
		config = webrtc.Configuration{}
		u, _ := url.Parse("http://broker.test/")
		broker = &SignalingServer{url: u, transport: rtFunc(r.roundTrip), keepLocalAddresses: true}
	}
	sf := &SnowflakeProxy{Capacity: uint(c.Capacity), RelayDomainNamePattern: c.Pattern, AllowNonTLSRelay: c.NonTLS,
		RelayURL: "wss://default-relay.invalid/", ProxyType: "standalone", EventDispatcher: event.NewSnowflakeEventDispatcher(), shutdown: make(chan struct{})}
	defer close(sf.shutdown)
	var heldSessions []held
	defer func() {
		for _, h := range heldSessions {
			h.hc.pc.Close()
		}
	}()
	quiesce := func(what string) error {
		want := int64(len(heldSessions))
		ok := waitUntil(6*time.Second, func() bool { return tokens.count() == want && int64(len(tokens.ch)) == want })
		if !ok {
			ok = waitUntil(12*time.Second, func() bool { return tokens.count() == want && int64(len(tokens.ch)) == want })
		}
		if !ok {
			return fmt.Errorf("%s: %d slot(s) counted in use, %d token(s) taken, but %d session(s) are open: a slot was leaked or released twice", what, tokens.count(), len(tokens.ch), want)
		}
		r.mu.Lock()
		defer r.mu.Unlock()
		if r.violation != "" {
			return fmt.Errorf("%s: %s", what, r.violation)
		}
		return nil
	}
	for i := range c.Outcomes {
		o := c.Outcomes[i]
		what := fmt.Sprintf("session #%d (%s)", i, o.Kind)
		if len(heldSessions) >= c.Capacity {
			// at capacity: taking another slot must block until a session ends
			got := make(chan struct{})
			go func() { tokens.get(); close(got) }()
			select {
			case <-got:
				return fmt.Errorf("%s: with capacity %d and %d sessions open another slot could be taken", what, c.Capacity, len(heldSessions))
			case <-time.After(30 * time.Millisecond):
			}
			h := heldSessions[0]
			heldSessions = heldSessions[1:]
			h.hc.pc.Close()
			select {
			case <-got:
			case <-time.After(15 * time.Second):
				return fmt.Errorf("%s: a session ended but the proxy's slot did not become available within 15 s", what)
			}
		} else {
			tokens.get()
		}
		r.mu.Lock()
		r.cur = &o
		r.curClient = nil
		r.inUse = int64(len(heldSessions)) + 1
		answersBefore := r.answers
		r.mu.Unlock()
		decoyBefore := atomic.LoadInt64(&r.decoyConns)
		relayBefore := atomic.LoadInt64(&r.relayConns)
		done := make(chan struct{})
		go func() { sf.runSession(fmt.Sprintf("sid-%d", i)); close(done) }()
		budget := 15*time.Second + time.Duration(o.AnswerDelayMs)*time.Millisecond
		if o.Kind == "client-never-connects" || o.Kind == "client-connects-no-datachannel" || o.Kind == "offer-custom" {
			// (a mutated offer that the proxy can still answer is a client that never connects)
			budget = dataChannelTimeout + 15*time.Second
		}
		select {
		case <-done:
		case <-time.After(budget):
			return fmt.Errorf("%s: runSession did not return within %v", what, budget)
		}
		r.mu.Lock()
		hc := r.curClient
		answered := r.answers > answersBefore
		r.mu.Unlock()
		switch o.Kind {
		case "relay-url":
			pu, perr := url.Parse(o.RelayURL)
			refuse := perr != nil
			if perr == nil && o.RelayURL != "" {
				refuse = !refMember(c.Pattern, pu.Hostname()) || (!c.NonTLS && pu.Scheme != "wss")
			}
			if refuse {
				if answered {
					return fmt.Errorf("%s: relay URL %q is outside pattern %q / TLS policy (nontls=%v) yet the proxy answered the offer", what, o.RelayURL, c.Pattern, c.NonTLS)
				}
			} else if !answered {
				return fmt.Errorf("%s: relay URL %q is acceptable (pattern %q, nontls=%v) but the proxy did not answer the offer", what, o.RelayURL, c.Pattern, c.NonTLS)
			}
			time.Sleep(20 * time.Millisecond)
			if n := atomic.LoadInt64(&r.decoyConns); n != decoyBefore && refuse {
				return fmt.Errorf("%s: a TCP connection reached the relay listener for refused URL %q", what, o.RelayURL)
			}
		case "connect-relay-unreachable", "connect-echo":
			if hc == nil {
				return fmt.Errorf("%s: harness client missing", what)
			}
			openBudget := 20 * time.Second
			if o.Kind == "connect-relay-unreachable" {
				// the proxy may tear the connection down (relay dial fails at once) before the
				// client side ever sees the channel open: not waiting for it is fine
				openBudget = 2 * time.Second
			}
			select {
			case <-hc.open:
			case <-time.After(openBudget):
				if o.Kind == "connect-echo" {
					hc.pc.Close()
					return fmt.Errorf("harness: data channel did not open within %v (environment problem)", openBudget)
				}
			}
			if o.Kind == "connect-echo" {
				hc.dc.Send([]byte("hello"))
				select {
				case m := <-hc.msgs:
					if !bytes.Equal(m, []byte("echo:hello")) {
						hc.pc.Close()
						return fmt.Errorf("%s: relay echo came back as %q", what, m)
					}
				case <-time.After(15 * time.Second):
					hc.pc.Close()
					return fmt.Errorf("%s: no data came back through proxy and relay within 15 s", what)
				}
				if atomic.LoadInt64(&r.relayConns) != relayBefore+1 {
					hc.pc.Close()
					return fmt.Errorf("%s: expected exactly one relay connection", what)
				}
				if o.Hold {
					heldSessions = append(heldSessions, held{hc})
					if err := quiesce(what + " held open"); err != nil {
						return err
					}
					continue
				}
			}
			hc.pc.Close()
		case "client-connects-no-datachannel":
			// the proxy gave up waiting for a data channel: slot and PeerConnection must be gone although
			// the client had completed ICE and DTLS
			if hc != nil {
				select {
				case <-hc.connected:
					uSess.Add("sessions in which the client was connected but never opened a data channel", 1)
				default:
				}
				defer hc.pc.Close()
			}
		default:
			if hc != nil {
				defer hc.pc.Close()
			}
		}
		if err := quiesce(what); err != nil {
			return err
		}
	}
	// close everything: the count returns to idle
	for _, h := range heldSessions {
		h.hc.pc.Close()
	}
	heldSessions = nil
	return quiesce("after all sessions ended")
}

var failKinds = []string{"poll-transport-error", "poll-500", "poll-malformed", "poll-empty", "poll-error-status", "poll-huge", "offer-undecodable", "offer-type-confusion", "offer-garbage-sdp", "offer-parser-panic-sdp", "offer-answer-type", "answer-transport-error", "answer-client-gone", "answer-500", "answer-malformed", "relay-url"}

var relayHosts = []string{"127.0.0.1", "127.9.8.7", "localhost", "snowflake.torproject.net", "evil.example.com", "snowflake.torproject.net.evil.example", "xsnowflake.torproject.net", "SNOWFLAKE.torproject.net", ""}

func genRelayURL(t *rapid.T, r *rig) string {
	_, port, _ := net.SplitHostPort(r.decoy.Addr().String())
	switch rapid.IntRange(0, 9).Draw(t, "urlkind") {
	case 0:
		return rapid.SampledFrom([]string{"://", "%zz", "ws://[::1", "wss://a b/", "\x7f", "wss://"}).Draw(t, "badurl")
	case 1:
		return ""
	}
	scheme := rapid.SampledFrom([]string{"wss", "wss", "ws", "http", "https", "WSS", "w-s"}).Draw(t, "scheme")
	host := rapid.SampledFrom(relayHosts).Draw(t, "host")
	u := scheme + "://"
	switch rapid.IntRange(0, 5).Draw(t, "userinfo") {
	case 0:
		u += "snowflake.torproject.net@"
	case 1:
		u += "user:pw@"
	}
	u += host
	if rapid.Bool().Draw(t, "port") {
		u += ":" + port
	}
	u += rapid.SampledFrom([]string{"", "/", "/snowflake.torproject.net", "/?h=snowflake.torproject.net", "#snowflake.torproject.net"}).Draw(t, "tail")
	return u
}

var uSess = vstat.New("C16", "c16_sessions")

var slowQuick int // 20-second outcomes generated so far in this process
var slowAnsQuick int

func init() { vstat.Register(uSess, runSessions) }

func TestVerifC16Sessions(t *testing.T) {
	defer uSess.Flush()
	start := time.Now()
	r := setupRig()
	relayURL := "ws" + strings.TrimPrefix(r.relay.URL, "http") + "/"
	rapid.Check(t, func(rt *rapid.T) {
		if time.Since(start) > time.Duration(vstat.Pick(70, 900))*time.Second {
			return // time budget of this real-time unit used up: the remaining iterations are empty (not counted as cases)
		}
		c := sessCase{Capacity: 1 + vstat.Shard()%3, Pattern: "$", NonTLS: true} // constant per process, varied across shards
		// half of the sequences run under a real relay policy: only 127.0.0.1 and friends by name
		// pattern, with or without the non-TLS permission (the harness relay is ws://127.0.0.1:port)
		strict := rapid.Bool().Draw(rt, "strictpolicy")
		if strict {
			c.Pattern = "0.0.1$"
			c.NonTLS = rapid.Bool().Draw(rt, "nontls")
		}
		n := rapid.IntRange(1, 8).Draw(rt, "nsessions")
		kinds := map[string]bool{}
		success, reached := false, false
		held := 0
		slow := 0
		slowAns := 0
		for i := 0; i < n; i++ {
			var o outcome
			switch rapid.IntRange(0, 9).Draw(rt, "class") {
			case 0, 1, 2:
				o = outcome{Kind: "connect-echo", RelayURL: relayURL, Hold: rapid.Bool().Draw(rt, "hold")}
				if slowAns == 0 && (vstat.Thorough() && rapid.IntRange(0, 5).Draw(rt, "slowanswer") == 0 || !vstat.Thorough() && slowAnsQuick == 0 && vstat.Shard()%3 == 1) {
					// 21 s: beyond the proxy's 20 s data-channel time-out, within its 30 s HTTP time-out
					o.AnswerDelayMs = 21000
					slowAns++
					slowAnsQuick++
				}
				success = true
				if o.Hold {
					held++
					if held >= c.Capacity {
						reached = true
					}
				}
			case 3:
				o = outcome{Kind: "connect-relay-unreachable", RelayURL: "ws://127.0.0.1:1/"}
			case 4:
				if (vstat.Thorough() || slowQuick == 0) && slow == 0 {
					// 20 s each: once per sequence in the thorough tier, once per process in the quick tier
					o = outcome{Kind: rapid.SampledFrom([]string{"client-never-connects", "client-connects-no-datachannel", "client-connects-no-datachannel"}).Draw(rt, "slowkind"), RelayURL: relayURL}
					if !vstat.Thorough() {
						o.Kind = "client-connects-no-datachannel"
					}
					slow++
					slowQuick++
				} else {
					o = outcome{Kind: "answer-client-gone", RelayURL: relayURL}
				}
			case 5:
				// "rejected relay URL": by host, by scheme, or both (kind relay-url checks the refusal itself)
				o = outcome{Kind: "relay-url", RelayURL: rapid.SampledFrom([]string{"wss://evil.example.com/", "ws://evil.example.com/", "ws://127.0.0.1:9/", "http://127.0.0.1:9/", "wss://127.0.0.1:9/", "https://127.0.0.1:9/x", "://", "ws://user@127.0.0.1:9/"}).Draw(rt, "refusedurl")}
			default:
				o = outcome{Kind: rapid.SampledFrom(failKinds[:len(failKinds)-1]).Draw(rt, "failkind"), RelayURL: relayURL}
			}
			if strict && !c.NonTLS && (o.Kind == "connect-echo" || o.Kind == "connect-relay-unreachable") {
				// the harness relay speaks plain ws: without the non-TLS permission such a session is
				// refused at the relay-URL check (still a legitimate exit path)
				o = outcome{Kind: "relay-url", RelayURL: o.RelayURL}
			}
			kinds[o.Kind] = true
			c.Outcomes = append(c.Outcomes, o)
		}
		nfail := 0
		var labels []string
		if slowAns > 0 {
			labels = append(labels, "broker's reply to /answer arrives after the client connected (21 s)")
		}
		for k := range kinds {
			labels = append(labels, "exit="+k)
			if !strings.HasPrefix(k, "connect-echo") {
				nfail++
			}
		}
		if reached {
			labels = append(labels, "reaches capacity")
		}
		uSess.Journal(c)
		vstat.Run(uSess, t, rt, c, (nfail >= 2 && success) || reached, labels, runSessions)
	})
	uSess.JournalDone()
}

// C06 (c)
var uRefuse = vstat.New("C06", "c06_proxy_refuse")

func init() { vstat.Register(uRefuse, runSessions) }

func TestVerifC06ProxyRefuse(t *testing.T) {
	defer uRefuse.Flush()
	start := time.Now()
	r := setupRig()
	rapid.Check(t, func(rt *rapid.T) {
		if time.Since(start) > time.Duration(vstat.Pick(60, 600))*time.Second {
			return // time budget of this real-time unit used up: the remaining iterations are empty (not counted as cases)
		}
		c := sessCase{Capacity: 1 + vstat.Shard()%3,
			Pattern: rapid.SampledFrom([]string{"snowflake.torproject.net$", "^snowflake.torproject.net$", "$", "0.0.1$", "^127.0.0.1$", "localhost$", "torproject.net$"}).Draw(rt, "pattern"),
			NonTLS:  rapid.Bool().Draw(rt, "nontls")}
		n := rapid.IntRange(1, 5).Draw(rt, "n")
		nt := false
		for i := 0; i < n; i++ {
			o := outcome{Kind: "relay-url", RelayURL: genRelayURL(rt, r)}
			if pu, err := url.Parse(o.RelayURL); err == nil && o.RelayURL != "" {
				hostOK := refMember(c.Pattern, pu.Hostname())
				schemeOK := c.NonTLS || pu.Scheme == "wss"
				if hostOK != schemeOK {
					nt = true
				}
			}
			c.Outcomes = append(c.Outcomes, o)
		}
		uRefuse.Journal(c)
		// same body as C16, recorded under C06
		uRefuse.Case(c, nt)
		if err := vstat.Safely(func() error { return runSessions(t, c) }); err != nil {
			if vstat.Inconclusive(err) {
				uRefuse.Add("inconclusive", 1)
				return
			}
			rt.Fatalf("%s", uRefuse.Fail(c, "%v", err))
		}
	})
	uRefuse.JournalDone()
}

var _ = json.Marshal

// ---------------------------------------------------------------------------
// reported load: a multiple of 8 that never exceeds the slots in use, also when the proxy
// re-polls after "no match" while sessions are ending. No WebRTC involved: the slots of the
// "running sessions" are taken and returned by the script.

type loadCase struct {
	Capacity int   `json:"capacity"` // 0 = unlimited
	Held     int   `json:"held"`     // sessions running when the poll starts
	NoMatch  int   `json:"nomatch"`  // polls answered "no match" before the session ends
	Release  []int `json:"release"`  // sessions ending after poll i (cyclic)
	Acquire  []int `json:"acquire,omitempty"`
}

func runLoad(_ *testing.T, c loadCase) error {
	if tokens == nil || int(tokens.capacity) != c.Capacity || tokens.count() != 0 {
		tokens = newTokens(uint(c.Capacity))
	}
	var mu sync.Mutex
	var violation string
	polls := 0
	held := 0
	release := func(n int) {
		for ; n > 0 && held > 0; n-- {
			tokens.ret()
			held--
		}
	}
	u, _ := url.Parse("http://broker.test/")
	broker = &SignalingServer{url: u, keepLocalAddresses: true, transport: rtFunc(func(req *http.Request) (*http.Response, error) {
		body, _ := io.ReadAll(req.Body)
		_, _, _, clients, _, _, err := messages.DecodeProxyPollRequestWithRelayPrefix(body)
		mu.Lock()
		defer mu.Unlock()
		inUse := tokens.count()
		if err != nil {
			violation = fmt.Sprintf("invalid poll: %v", err)
		} else if clients%8 != 0 || clients < 0 || int64(clients) > inUse {
			violation = fmt.Sprintf("poll #%d reports Clients=%d while %d slots are in use (capacity %d): must be a multiple of 8 not exceeding the slots in use", polls+1, clients, inUse, c.Capacity)
		} else if int64(clients) != inUse/8*8 && violation == "" {
			// rounded DOWN to 8: reporting less than that under-reports load (statement: "a multiple of 8
			// that does not exceed"), which is allowed; counted only
			uLoad.Add("label:reported below floor8", 1)
		}
		polls++
		i := polls - 1
		if i < c.NoMatch {
			// sessions end while the proxy waits for its next poll
			if len(c.Release) > 0 {
				release(c.Release[i%len(c.Release)])
			}
			return httpResp(200, `{"Status":"no match"}`), nil
		}
		return httpResp(200, "garbage"), nil
	})}
	sf := &SnowflakeProxy{Capacity: uint(c.Capacity), RelayDomainNamePattern: "$", AllowNonTLSRelay: true, ProxyType: "standalone", EventDispatcher: event.NewSnowflakeEventDispatcher(), shutdown: make(chan struct{})}
	for i := 0; i < c.Held; i++ {
		tokens.get()
		held++
	}
	tokens.get()
	done := make(chan struct{})
	go func() { sf.runSession("sid-load"); close(done) }()
	budget := time.Duration(c.NoMatch+1)*pollInterval + 20*time.Second
	select {
	case <-done:
	case <-time.After(budget):
		close(sf.shutdown)
		return fmt.Errorf("runSession did not return within %v", budget)
	}
	mu.Lock()
	v := violation
	mu.Unlock()
	release(held)
	if v != "" {
		return fmt.Errorf("%s", v)
	}
	if n := tokens.count(); n != 0 {
		return fmt.Errorf("after the session ended and all running sessions were closed %d slots are still counted in use", n)
	}
	return nil
}

var uLoad = vstat.New("C16", "c16_load_report")

func init() { vstat.Register(uLoad, runLoad) }

func TestVerifC16LoadReport(t *testing.T) {
	defer uLoad.Flush()
	start := time.Now()
	rapid.Check(t, func(rt *rapid.T) {
		if time.Since(start) > time.Duration(vstat.Pick(60, 600))*time.Second {
			return // time budget of this real-time unit used up: the remaining iterations are empty (not counted as cases)
		}
		c := loadCase{Capacity: rapid.SampledFrom([]int{0, 9, 12, 16, 17, 24, 40}).Draw(rt, "capacity")}
		max := c.Capacity - 1
		if c.Capacity == 0 {
			max = 40
		}
		c.Held = rapid.OneOf(rapid.IntRange(0, max), rapid.SampledFrom([]int{6, 7, 8, 15, 16})).Draw(rt, "held")
		if c.Held > max {
			c.Held = max
		}
		c.NoMatch = rapid.IntRange(0, 2).Draw(rt, "nomatch")
		c.Release = rapid.SliceOfN(rapid.IntRange(0, 10), 1, 2).Draw(rt, "release")
		crosses := false
		if c.NoMatch > 0 {
			left := c.Held + 1
			for i := 0; i < c.NoMatch; i++ {
				before := left / 8
				left -= c.Release[i%len(c.Release)]
				if left < 1 {
					left = 1
				}
				if left/8 < before {
					crosses = true
				}
			}
		}
		labels := []string{fmt.Sprintf("nomatch=%d", c.NoMatch)}
		if crosses {
			labels = append(labels, "load drops below a multiple of 8 between polls")
		}
		vstat.Run(uLoad, t, rt, c, crosses, labels, runLoad)
	})
}
