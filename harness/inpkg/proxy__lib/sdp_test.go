//go:build go1.25

// C13 / C18 (d): extracting a peer address from any SDP text never panics, and what
// it returns is the first remote candidate address, else the c= address, else nil.
package snowflake_proxy

import (
	"fmt"
	"io"
	"log"
	"net"
	"net/netip"
	"strings"
	"testing"

	"github.com/pion/ice/v2"
	"github.com/pion/sdp/v3"
	"pgregory.net/rapid"
	"verif.local/vstat"
	"verif.local/vstat/gen"
)

func init() { log.SetOutput(io.Discard) }

type sdpCase struct {
	Text string `json:"text"`
}

var localPrefixes = []netip.Prefix{
	netip.MustParsePrefix("10.0.0.0/8"), netip.MustParsePrefix("172.16.0.0/12"), netip.MustParsePrefix("192.168.0.0/16"),
	netip.MustParsePrefix("100.64.0.0/10"), netip.MustParsePrefix("169.254.0.0/16"), netip.MustParsePrefix("fc00::/7"),
	netip.MustParsePrefix("127.0.0.0/8"), netip.MustParsePrefix("::1/128"), netip.MustParsePrefix("0.0.0.0/32"), netip.MustParsePrefix("::/128"),
}

func refRemote(ip net.IP) bool {
	a, ok := netip.AddrFromSlice(ip)
	if !ok {
		return false
	}
	a = a.Unmap()
	for _, p := range localPrefixes {
		if p.Contains(a) {
			return false
		}
	}
	return true
}

func runRemoteIP(_ *testing.T, c sdpCase) error {
	ip := remoteIPFromSDP(c.Text)
	if ip != nil && !refRemote(ip) {
		return fmt.Errorf("remoteIPFromSDP returned %v, which is local/loopback/unspecified; text %q", ip, clip(c.Text))
	}
	// reference for well-formed generated descriptions: first candidate line (in text order,
	// inside media sections) whose address is a remote IP
	if !strings.HasPrefix(c.Text, "v=0\r\n") {
		return nil
	}
	var desc sdp.SessionDescription
	if safeUnmarshal(&desc, c.Text) != nil {
		return nil // not parseable as SDP: only the locality rule above applies
	}
	var want net.IP
	inMedia := false
	parsed := true
	for _, l := range strings.Split(c.Text, "\r\n") {
		if strings.HasPrefix(l, "m=") {
			inMedia = true
		}
		if inMedia && strings.HasPrefix(l, "a=candidate:") && want == nil {
			cand, err := ice.UnmarshalCandidate(strings.TrimPrefix(l, "a=candidate:"))
			if err != nil {
				continue
			}
			if p := net.ParseIP(cand.Address()); p != nil && refRemote(p) {
				want = p
			}
		}
	}
	if ip == nil && want != nil && parsed {
		return fmt.Errorf("remoteIPFromSDP returned nil, the first remote candidate is %v; text %q", want, clip(c.Text))
	}
	if ip != nil && want != nil && !ip.Equal(want) {
		return fmt.Errorf("remoteIPFromSDP returned %v, the first remote candidate is %v; text %q", ip, want, clip(c.Text))
	}
	return nil
}

func safeUnmarshal(d *sdp.SessionDescription, text string) (err error) {
	defer func() {
		if r := recover(); r != nil {
			err = fmt.Errorf("parser panicked: %v", r)
		}
	}()
	return d.Unmarshal([]byte(text))
}

func clip(s string) string {
	if len(s) > 400 {
		return s[:400] + "…"
	}
	return s
}

var uRemoteIP = vstat.New("C13", "c13_remoteip")

func init() { vstat.Register(uRemoteIP, runRemoteIP) }

func genSDPText(t *rapid.T) (string, bool) {
	if rapid.IntRange(0, 5).Draw(t, "arbitrary") == 0 {
		return rapid.OneOf(rapid.String(), rapid.SampledFrom([]string{"", "v=0", "v= o=0 0 0 IN IP4\ns=\nt=\nr= ", "c=IN IP4 8.8.8.8\n", "c=IN IP4 10.0.0.1\r\n", "c=IN IP6 ::1\n", "c=IN IP4 1.2.3.4/127/3 \n", "c=IN IP4 999.1.1.1\n", "c=IN IP6 2001:db8::1/64\r\n", "a=candidate:1 1 udp 1 8.8.8.8 1 typ host\r\n", "c=IN IP4 ...\n", "c=IN IP6 :::::\n"})).Draw(t, "text"), false
	}
	var b strings.Builder
	b.WriteString("v=0\r\no=- 4358805017720277108 1658000000 IN IP4 0.0.0.0\r\ns=-\r\n")
	if rapid.Bool().Draw(t, "sessionc") {
		b.WriteString("c=IN IP" + conn(t) + "\r\n")
	}
	b.WriteString("t=0 0\r\n")
	if rapid.IntRange(0, 5).Draw(t, "oddline") == 0 {
		// lines pion has separate little parsers for
		b.WriteString(rapid.SampledFrom([]string{"r= ", "r=", "r=7d 1h 0 25h", "r=1 2", "r=x y z", "z=", "z=0 0", "z=1 1h 2", "k=", "k=prompt", "b=", "b=AS:1", "a=", "a=x:"}).Draw(t, "odd") + "\r\n")
	}
	nm := rapid.IntRange(0, 2).Draw(t, "nmedia")
	for i := 0; i < nm; i++ {
		b.WriteString("m=application 9 UDP/DTLS/SCTP webrtc-datachannel\r\n")
		if rapid.Bool().Draw(t, "mediac") {
			b.WriteString("c=IN IP" + conn(t) + "\r\n")
		}
		b.WriteString("a=mid:" + fmt.Sprint(i) + "\r\n")
		nc := rapid.IntRange(0, 5).Draw(t, "ncand")
		for k := 0; k < nc; k++ {
			addr := rapid.OneOf(rapid.SampledFrom([]string{"10.0.0.1", "192.168.1.5", "127.0.0.1", "0.0.0.0", "::1", "::", "fd00::1", "8.8.8.8", "203.0.113.7", "2001:db8::9", "::ffff:10.1.1.1", "::ffff:9.9.9.9", "172.32.0.1", "100.64.0.1", "169.254.1.1", "host.local", "999.0.0.1", "x"}), rapid.Custom(gen.IPv4), rapid.Custom(gen.IPv6)).Draw(t, "addr")
			typ := rapid.SampledFrom([]string{"host", "srflx", "relay", "prflx", "bogus"}).Draw(t, "typ")
			line := fmt.Sprintf("a=candidate:%d 1 udp 2130706431 %s %d typ %s", k+1, addr, rapid.IntRange(0, 65535).Draw(t, "port"), typ)
			if typ != "host" && rapid.Bool().Draw(t, "raddr") {
				line += " raddr 10.0.0.2 rport 5"
			}
			if rapid.IntRange(0, 9).Draw(t, "trunc") == 0 {
				line = line[:rapid.IntRange(12, len(line)).Draw(t, "cut")]
			}
			b.WriteString(line + "\r\n")
		}
	}
	return b.String(), true
}

func conn(t *rapid.T) string {
	if rapid.Bool().Draw(t, "c6") {
		return "6 " + rapid.OneOf(rapid.SampledFrom([]string{"::", "::1", "2001:db8::1", "fd00::2", "2001:db8::1/64", "zz"}), rapid.Custom(gen.IPv6)).Draw(t, "caddr6")
	}
	return "4 " + rapid.OneOf(rapid.SampledFrom([]string{"0.0.0.0", "127.0.0.1", "10.1.2.3", "8.8.4.4", "224.2.1.1/127/3", "1.2.3", "300.1.1.1"}), rapid.Custom(gen.IPv4)).Draw(t, "caddr4")
}

func TestVerifC13RemoteIP(t *testing.T) {
	defer uRemoteIP.Flush()
	rapid.Check(t, func(rt *rapid.T) {
		text, structured := genSDPText(rt)
		c := sdpCase{Text: text}
		vstat.Run(uRemoteIP, t, rt, c, structured && strings.Contains(text, "a=candidate"), nil, runRemoteIP)
	})
}

func TestVerifReplay(t *testing.T) { vstat.RunReplays(t) }

// The same extraction, recorded for C18 (d): the proxy derives client_ip from the offer.
var uRemoteIP18 = vstat.New("C18", "c18_remoteip")

func init() { vstat.Register(uRemoteIP18, runRemoteIP) }

func TestVerifC18RemoteIP(t *testing.T) {
	defer uRemoteIP18.Flush()
	rapid.Check(t, func(rt *rapid.T) {
		text, structured := genSDPText(rt)
		c := sdpCase{Text: text}
		vstat.Run(uRemoteIP18, t, rt, c, structured && strings.Contains(text, "a=candidate"), nil, runRemoteIP)
	})
}
