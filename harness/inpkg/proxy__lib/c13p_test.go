//go:build go1.25

// C13 (proxy side, end to end): offers that decode but that the WebRTC stack refuses - or that it
// accepts although they are damaged - handed to the proxy by the broker and driven through
// runSession with a real pion PeerConnection. The proxy process must survive every one of them
// (the test process IS the proxy: a crash is caught through the journal), the session must end,
// and its slot must come back.
package snowflake_proxy

import (
	"fmt"
	"strings"
	"testing"
	"time"

	"pgregory.net/rapid"
	"verif.local/vstat"
	"verif.local/vstat/gen"
)

var uOffers = vstat.New("C13", "c13_proxy_offers")

func init() { vstat.Register(uOffers, runSessions) }

func TestVerifC13ProxyOffers(t *testing.T) {
	defer uOffers.Flush()
	start := time.Now()
	r := setupRig()
	rapid.Check(t, func(rt *rapid.T) {
		if time.Since(start) > time.Duration(vstat.Pick(45, 600))*time.Second {
			return // time budget of this real-time unit used up
		}
		c := sessCase{Capacity: 1 + vstat.Shard()%3, Pattern: "$", NonTLS: true}
		n := rapid.IntRange(1, 4).Draw(rt, "noffers")
		var labels []string
		for i := 0; i < n; i++ {
			typ, muts := gen.DescMutation(rt, "offer")
			o := outcome{Kind: "offer-custom", RelayURL: "ws://127.0.0.1:1/", Offer: gen.MutatedDescription(r.realOffer, typ, muts)}
			c.Outcomes = append(c.Outcomes, o)
			labels = append(labels, "type "+typ, "sdp "+strings.Join(muts, "+"))
		}
		uOffers.Journal(c)
		uOffers.Case(c, true, labels...)
		if err := vstat.Safely(func() error { return runSessions(t, c) }); err != nil {
			if vstat.Inconclusive(err) {
				uOffers.Add("inconclusive", 1)
				return
			}
			rt.Fatalf("%s", uOffers.Fail(c, "%v", err))
		}
	})
	uOffers.JournalDone()
}

var _ = fmt.Sprint
