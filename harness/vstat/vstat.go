// Package vstat is the small bookkeeping layer shared by every harness test of
// /verif: it counts generated cases, counts the DISTINCT non-trivial ones (by a
// hash of the serialised case), keeps label histograms and sample cases, writes
// the shrunk failing case as a library-free replay file, and replays such files.
//
// It deliberately has no dependency besides the standard library so that it can
// be linked both into the external harness module and into the in-package
// harness files that are injected into /repo packages by a build overlay.
//
// Environment (set by /verif/check):
//
//	VERIF_OUT     directory for <unit>.<shard>.{stats.json,hashes,fail.json,journal.json}
//	VERIF_SHARD   shard number of this process (default 0)
//	VERIF_TIER    quick | thorough
//	VERIF_REPLAY  path of one replay file, or a directory of *.json replay files
package vstat

import (
	"encoding/binary"
	"encoding/json"
	"fmt"
	"hash/fnv"
	"os"
	"path/filepath"
	"runtime/debug"
	"sort"
	"strconv"
	"strings"
	"sync"
	"sync/atomic"
	"testing"
	"time"
)

const maxSamples = 6
const maxHashes = 1 << 20

// Unit collects statistics for one test function of one property.
type Unit struct {
	Prop string
	Name string

	explicitJournal atomic.Bool // the unit journals every case itself (Journal)

	mu          sync.Mutex
	evals       int64
	nontrivial  int64
	hashes      map[uint64]struct{}
	labels      map[string]int64
	counters    map[string]int64
	samplesNT   []json.RawMessage
	samplesAny  []json.RawMessage
	known       map[string]int64
	knownWhat   map[string]string
	fails       int64
	lastFailMsg string
	notes       []string
}

var (
	regMu   sync.Mutex
	units   = map[string]*Unit{}
	replays = map[string]func(t *testing.T, raw json.RawMessage) error{}
)

// New creates (or returns) the unit called name for property prop.
func New(prop, name string) *Unit {
	regMu.Lock()
	defer regMu.Unlock()
	if u, ok := units[name]; ok {
		return u
	}
	u := &Unit{Prop: prop, Name: name,
		hashes: map[uint64]struct{}{}, labels: map[string]int64{}, counters: map[string]int64{},
		known: map[string]int64{}, knownWhat: map[string]string{}}
	units[name] = u
	return u
}

// Tier returns "quick" or "thorough".
func Tier() string {
	if os.Getenv("VERIF_TIER") == "thorough" {
		return "thorough"
	}
	return "quick"
}

// Thorough reports whether the thorough tier is running.
func Thorough() bool { return Tier() == "thorough" }

// Pick returns q in the quick tier and th in the thorough tier.
func Pick(q, th int) int {
	if Thorough() {
		return th
	}
	return q
}

func shard() string {
	s := os.Getenv("VERIF_SHARD")
	if s == "" {
		return "0"
	}
	return s
}

// Shard returns the shard number of this process.
func Shard() int {
	n, _ := strconv.Atoi(shard())
	return n
}

// Shards returns the number of shards the driver runs this unit in (default 1).
func Shards() int {
	n, _ := strconv.Atoi(os.Getenv("VERIF_SHARDS"))
	if n < 1 {
		n = 1
	}
	return n
}

// Seed returns VERIF_SEED (default 1) mixed with the shard number; never 0.
func Seed() uint64 {
	n, err := strconv.ParseUint(os.Getenv("VERIF_SEED"), 10, 64)
	if err != nil {
		n = 1
	}
	return 1 + n*1000003 + uint64(Shard())
}

func outPath(unit, suffix string) string {
	dir := os.Getenv("VERIF_OUT")
	if dir == "" {
		return ""
	}
	return filepath.Join(dir, unit+"."+shard()+"."+suffix)
}

func encode(c any) json.RawMessage {
	b, err := json.Marshal(c)
	if err != nil {
		b, _ = json.Marshal(fmt.Sprintf("unserialisable case: %v", err))
	}
	return b
}

func clip(b json.RawMessage) json.RawMessage {
	if len(b) <= 3000 {
		return b
	}
	s, _ := json.Marshal(map[string]any{"truncated_json": string(b[:2800]), "full_len": len(b)})
	return s
}

// Case records one executed case. nontrivial is the per-property rule evaluated
// by the caller; distinctness is decided here by hashing the serialised case.
func (u *Unit) Case(c any, nontrivial bool, labels ...string) {
	b := encode(c)
	u.mu.Lock()
	defer u.mu.Unlock()
	u.evals++
	for _, l := range labels {
		if l != "" {
			u.labels[l]++
		}
	}
	if nontrivial {
		u.nontrivial++
		h := fnv.New64a()
		h.Write(b)
		if len(u.hashes) < maxHashes {
			u.hashes[h.Sum64()] = struct{}{}
		}
		if len(u.samplesNT) < maxSamples {
			u.samplesNT = append(u.samplesNT, clip(b))
		}
	} else if len(u.samplesAny) < 2 {
		u.samplesAny = append(u.samplesAny, clip(b))
	}
}

// Label bumps a label outside Case.
func (u *Unit) Label(l string) { u.Add("label:"+l, 1) }

// Add bumps a named counter (reported under coverage.counters).
func (u *Unit) Add(key string, n int64) {
	u.mu.Lock()
	defer u.mu.Unlock()
	if strings.HasPrefix(key, "label:") {
		u.labels[strings.TrimPrefix(key, "label:")] += n
		return
	}
	u.counters[key] += n
}

// Note attaches a free-text remark to the evidence.
func (u *Unit) Note(format string, args ...any) {
	u.mu.Lock()
	defer u.mu.Unlock()
	if len(u.notes) < 20 {
		u.notes = append(u.notes, fmt.Sprintf(format, args...))
	}
}

// Known records that a case hit a finding listed in known_findings.json. The
// caller then excludes the case (it is not a violation and not counted as held).
func (u *Unit) Known(id, what string) {
	u.mu.Lock()
	defer u.mu.Unlock()
	u.known[id]++
	u.knownWhat[id] = what
}

// KnownActive reports whether finding id is listed as "known" (env VERIF_KNOWN,
// comma separated, provided by the driver from known_findings.json).
func KnownActive(id string) bool {
	for _, k := range strings.Split(os.Getenv("VERIF_KNOWN"), ",") {
		if k == id {
			return true
		}
	}
	return false
}

type failFile struct {
	Property string          `json:"property"`
	Unit     string          `json:"unit"`
	Message  string          `json:"message"`
	Case     json.RawMessage `json:"case"`
}

// Fail writes the failing case as a replay file (overwriting the previous one of
// this unit/shard: the last execution rapid performs is the shrunk one) and
// returns the message to fail the test with.
func (u *Unit) Fail(c any, format string, args ...any) string {
	msg := fmt.Sprintf(format, args...)
	u.mu.Lock()
	u.fails++
	u.lastFailMsg = msg
	u.mu.Unlock()
	if p := outPath(u.Name, "fail.json"); p != "" {
		b, _ := json.MarshalIndent(failFile{Property: u.Prop, Unit: u.Name, Message: msg, Case: encode(c)}, "", " ")
		_ = os.WriteFile(p, b, 0o644)
	}
	return msg
}

// Journal writes the case about to be executed, for units in which the code
// under test may kill the process (panic in a goroutine the harness does not own).
func (u *Unit) Journal(c any) {
	u.explicitJournal.Store(true)
	u.journal(c)
}

func (u *Unit) journal(c any) {
	if p := outPath(u.Name, "journal.json"); p != "" {
		b, _ := json.Marshal(failFile{Property: u.Prop, Unit: u.Name, Message: "process died while executing this case", Case: encode(c)})
		_ = os.WriteFile(p, b, 0o644)
	}
}

// JournalDone removes the journal (the process survived the unit).
func (u *Unit) JournalDone() {
	if p := outPath(u.Name, "journal.json"); p != "" {
		_ = os.Remove(p)
	}
}

type statsFile struct {
	Property   string            `json:"property"`
	Unit       string            `json:"unit"`
	Shard      string            `json:"shard"`
	Evals      int64             `json:"evaluations"`
	Nontrivial int64             `json:"nontrivial_total"`
	Distinct   int               `json:"distinct_nontrivial_local"`
	Labels     map[string]int64  `json:"labels"`
	Counters   map[string]int64  `json:"counters"`
	Samples    []json.RawMessage `json:"samples"`
	Known      map[string]int64  `json:"known"`
	KnownWhat  map[string]string `json:"known_what"`
	Fails      int64             `json:"fails"`
	LastFail   string            `json:"last_fail,omitempty"`
	Notes      []string          `json:"notes,omitempty"`
}

// Flush writes the statistics of the unit. Call it with defer at the top of the
// test function.
func (u *Unit) Flush() {
	u.mu.Lock()
	defer u.mu.Unlock()
	p := outPath(u.Name, "stats.json")
	if p == "" {
		return
	}
	samples := append([]json.RawMessage{}, u.samplesNT...)
	for _, s := range u.samplesAny {
		if len(samples) < maxSamples {
			samples = append(samples, s)
		}
	}
	sf := statsFile{Property: u.Prop, Unit: u.Name, Shard: shard(), Evals: u.evals, Nontrivial: u.nontrivial,
		Distinct: len(u.hashes), Labels: u.labels, Counters: u.counters, Samples: samples,
		Known: u.known, KnownWhat: u.knownWhat, Fails: u.fails, LastFail: u.lastFailMsg, Notes: u.notes}
	b, _ := json.MarshalIndent(sf, "", " ")
	_ = os.WriteFile(p, b, 0o644)
	hs := make([]uint64, 0, len(u.hashes))
	for h := range u.hashes {
		hs = append(hs, h)
	}
	sort.Slice(hs, func(i, j int) bool { return hs[i] < hs[j] })
	buf := make([]byte, 8*len(hs))
	for i, h := range hs {
		binary.LittleEndian.PutUint64(buf[8*i:], h)
	}
	_ = os.WriteFile(outPath(u.Name, "hashes"), buf, 0o644)
}

// Fataler is the part of *rapid.T / *testing.T that Run needs.
type Fataler interface {
	Fatalf(format string, args ...any)
}

// Register makes the unit replayable: run must be a pure function of the case.
func Register[C any](u *Unit, run func(t *testing.T, c C) error) {
	regMu.Lock()
	defer regMu.Unlock()
	replays[u.Name] = func(t *testing.T, raw json.RawMessage) error {
		var c C
		if err := json.Unmarshal(raw, &c); err != nil {
			return fmt.Errorf("replay file does not decode into the case type of %s: %v", u.Name, err)
		}
		return run(t, c)
	}
}

// Safely runs f and converts a panic in the calling goroutine into an error that
// carries the stack; this is how "never panics" is observed.
func Safely(f func() error) (err error) {
	defer func() {
		if r := recover(); r != nil {
			st := string(debug.Stack())
			if len(st) > 2500 {
				st = st[:2500]
			}
			err = fmt.Errorf("PANIC: %v\n%s", r, st)
		}
	}()
	return f()
}

const lateJournalAfter = 5 * time.Second

// Run records the case, executes it and fails ft with a replay file on error.
func Run[C any](u *Unit, t *testing.T, ft Fataler, c C, nontrivial bool, labels []string, run func(t *testing.T, c C) error) {
	u.Case(c, nontrivial, labels...)
	// A case that is still running after a few seconds is journalled (if the unit does not journal every case
	// itself): should it never return, the driver finds the case that hangs and re-runs it alone.
	var late atomic.Bool
	timer := time.AfterFunc(lateJournalAfter, func() {
		if !u.explicitJournal.Load() {
			late.Store(true)
			u.journal(c)
		}
	})
	err := Safely(func() error { return run(t, c) })
	timer.Stop()
	if late.Load() && !u.explicitJournal.Load() {
		u.JournalDone()
	}
	if err != nil {
		if Inconclusive(err) {
			// the harness could not set the case up (environment hiccup): never a violation
			// counted, not skipped: rapid fails a test that discards most of its cases
			u.Add("inconclusive", 1)
			u.Note("inconclusive: %v", err)
			return
		}
		ft.Fatalf("%s", u.Fail(c, "%v", err))
	}
}

// Inconclusive reports whether err says that the harness itself could not carry the case
// out (message starting with "harness:"); such a case is counted, not reported.
func Inconclusive(err error) bool {
	return err != nil && strings.HasPrefix(err.Error(), "harness:")
}

// RunReplays executes every replay file named by VERIF_REPLAY whose unit is
// registered in this test binary. It never involves the PBT library.
func RunReplays(t *testing.T) {
	target := os.Getenv("VERIF_REPLAY")
	if target == "" {
		t.Skip("VERIF_REPLAY not set")
	}
	var files []string
	if st, err := os.Stat(target); err == nil && st.IsDir() {
		files, _ = filepath.Glob(filepath.Join(target, "*.json"))
		sort.Strings(files)
	} else {
		files = []string{target}
	}
	ran := 0
	for _, f := range files {
		b, err := os.ReadFile(f)
		if err != nil {
			t.Fatalf("replay %s: %v", f, err)
		}
		var ff failFile
		if err := json.Unmarshal(b, &ff); err != nil {
			t.Fatalf("replay %s: %v", f, err)
		}
		regMu.Lock()
		fn := replays[ff.Unit]
		u := units[ff.Unit]
		regMu.Unlock()
		if fn == nil {
			continue
		}
		ran++
		err = Safely(func() error { return fn(t, ff.Case) })
		if u != nil {
			u.Add("replayed", 1)
		}
		if err != nil {
			fmt.Printf("REPLAY-FAIL unit=%s file=%s\n%v\n", ff.Unit, f, err)
			if u != nil {
				u.mu.Lock()
				u.fails++
				u.lastFailMsg = err.Error()
				u.mu.Unlock()
				if p := outPath(u.Name, "fail.json"); p != "" {
					_ = os.WriteFile(p, b, 0o644)
				}
			}
			t.Errorf("replay %s failed: %v", f, err)
		} else {
			fmt.Printf("REPLAY-OK unit=%s file=%s\n", ff.Unit, f)
		}
	}
	regMu.Lock()
	for _, u := range units {
		if u.counters["replayed"] > 0 {
			defer u.Flush()
		}
	}
	regMu.Unlock()
	fmt.Printf("REPLAYED %d\n", ran)
}
