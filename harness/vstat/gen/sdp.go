package gen

import (
	"encoding/json"
	"strings"

	"pgregory.net/rapid"
)

// SDPMutations are named edits of a real session description's SDP text. Most of them leave a text
// that decodes (JSON and SDP grammar) but that a WebRTC stack refuses or cannot connect with.
var SDPMutations = []string{
	"drop:a=ice-ufrag", "drop:a=ice-pwd", "drop:a=fingerprint", "drop:a=setup", "drop:a=mid", "drop:a=sctp-port",
	"drop:a=candidate", "drop:a=group", "drop:m=", "drop:c=", "drop:o=", "drop:v=", "drop:t=", "drop:s=",
	"dup:m=", "dup:a=fingerprint", "dup:a=ice-ufrag", "dup-all", "truncate-half", "truncate-line", "insert-r", "insert-junk-line",
	"empty", "test", "huge-port", "crlf->lf", "nul-byte", "setup-bogus", "fingerprint-short", "ufrag-empty", "proto-rtp", "second-media-audio",
}

// MutateSDP applies one named mutation to SDP text.
func MutateSDP(sdp, m string) string {
	lines := strings.Split(strings.TrimSuffix(sdp, "\r\n"), "\r\n")
	join := func(l []string) string {
		if len(l) == 0 {
			return ""
		}
		return strings.Join(l, "\r\n") + "\r\n"
	}
	switch {
	case strings.HasPrefix(m, "drop:"):
		p := strings.TrimPrefix(m, "drop:")
		var out []string
		for _, l := range lines {
			if !strings.HasPrefix(l, p) {
				out = append(out, l)
			}
		}
		return join(out)
	case strings.HasPrefix(m, "dup:"):
		p := strings.TrimPrefix(m, "dup:")
		var out []string
		for _, l := range lines {
			out = append(out, l)
			if strings.HasPrefix(l, p) {
				out = append(out, l)
			}
		}
		return join(out)
	}
	switch m {
	case "dup-all":
		return sdp + sdp
	case "truncate-half":
		return sdp[:len(sdp)/2]
	case "truncate-line":
		return join(lines[:len(lines)/2])
	case "insert-r":
		var out []string
		for _, l := range lines {
			out = append(out, l)
			if strings.HasPrefix(l, "t=") {
				out = append(out, "r= ")
			}
		}
		return join(out)
	case "insert-junk-line":
		out := append([]string{}, lines[:len(lines)/2]...)
		out = append(out, "this is not an sdp line")
		return join(append(out, lines[len(lines)/2:]...))
	case "empty":
		return ""
	case "test":
		return "test"
	case "huge-port":
		for i, l := range lines {
			if strings.HasPrefix(l, "m=") {
				f := strings.Fields(l)
				if len(f) > 1 {
					f[1] = "99999999999"
				}
				lines[i] = strings.Join(f, " ")
			}
		}
		return join(lines)
	case "crlf->lf":
		return strings.ReplaceAll(sdp, "\r\n", "\n")
	case "nul-byte":
		return sdp[:len(sdp)/3] + "\x00" + sdp[len(sdp)/3:]
	case "setup-bogus":
		for i, l := range lines {
			if strings.HasPrefix(l, "a=setup:") {
				lines[i] = "a=setup:bogus"
			}
		}
		return join(lines)
	case "fingerprint-short":
		for i, l := range lines {
			if strings.HasPrefix(l, "a=fingerprint:") {
				lines[i] = "a=fingerprint:sha-256 AB:CD"
			}
		}
		return join(lines)
	case "ufrag-empty":
		for i, l := range lines {
			if strings.HasPrefix(l, "a=ice-ufrag:") {
				lines[i] = "a=ice-ufrag:"
			}
		}
		return join(lines)
	case "proto-rtp":
		for i, l := range lines {
			if strings.HasPrefix(l, "m=application") {
				lines[i] = "m=application 9 RTP/AVP 0"
			}
		}
		return join(lines)
	case "second-media-audio":
		return sdp + "m=audio 9 UDP/TLS/RTP/SAVPF 111\r\nc=IN IP4 0.0.0.0\r\na=mid:1\r\na=sendrecv\r\na=rtpmap:111 opus/48000/2\r\n"
	}
	return sdp
}

// DescTypes are values for the "type" member of a serialised session description.
var DescTypes = []string{"offer", "answer", "pranswer", "rollback", "", "OFFER", "unknown"}

// MutatedDescription re-serialises a description ({"type":..,"sdp":..}) with another type and mutated SDP.
func MutatedDescription(desc string, typ string, muts []string) string {
	var d struct {
		Type string `json:"type"`
		SDP  string `json:"sdp"`
	}
	if json.Unmarshal([]byte(desc), &d) != nil {
		return desc
	}
	for _, m := range muts {
		d.SDP = MutateSDP(d.SDP, m)
	}
	if typ != "=" {
		d.Type = typ
	}
	b, _ := json.Marshal(d)
	return string(b)
}

// DescMutation draws a type ("=" keeps the original) and 0-2 SDP mutations; never the identity.
func DescMutation(t *rapid.T, own string) (typ string, muts []string) {
	typ = "="
	if rapid.IntRange(0, 2).Draw(t, "changetype") == 0 {
		typ = rapid.SampledFrom(DescTypes).Draw(t, "desctype")
	}
	n := rapid.IntRange(0, 2).Draw(t, "nmut")
	if (typ == "=" || typ == own) && n == 0 {
		n = 1
	}
	for i := 0; i < n; i++ {
		muts = append(muts, rapid.SampledFrom(SDPMutations).Draw(t, "sdpmut"))
	}
	return
}
