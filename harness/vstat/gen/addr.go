// Package gen holds generators shared by several property harnesses.
package gen

import (
	"fmt"
	"strings"

	"pgregory.net/rapid"
)

var octets = []int{0, 1, 2, 9, 10, 99, 100, 127, 128, 169, 172, 192, 199, 200, 249, 250, 254, 255}

// IPv4 generates a dotted-quad with 1-3 digit octets (no leading zeros).
func IPv4(t *rapid.T) string {
	var o [4]int
	for i := range o {
		if rapid.Bool().Draw(t, "octetclass") {
			o[i] = rapid.SampledFrom(octets).Draw(t, "octet")
		} else {
			o[i] = rapid.IntRange(0, 255).Draw(t, "octet")
		}
	}
	return fmt.Sprintf("%d.%d.%d.%d", o[0], o[1], o[2], o[3])
}

func hexGroup(t *rapid.T, v int) string {
	s := fmt.Sprintf("%x", v)
	switch rapid.IntRange(0, 3).Draw(t, "hexcase") {
	case 0:
		s = strings.ToUpper(s)
	case 1:
		// mixed case
		b := []byte(s)
		for i := range b {
			if i%2 == 0 {
				b[i] = strings.ToUpper(string(b[i]))[0]
			}
		}
		s = string(b)
	}
	if rapid.IntRange(0, 4).Draw(t, "zeropad") == 0 {
		for len(s) < 4 {
			s = "0" + s
		}
	}
	return s
}

// IPv6 generates one of the textual forms of an IPv6 address that Go's parsers
// accept: 8 groups, or with one "::" standing for one or more zero groups at any
// position, optionally with the last 32 bits in dotted-quad form; hex digits in
// either case, groups optionally zero-padded.
func IPv6(t *rapid.T) string {
	var g [8]int
	for i := range g {
		switch rapid.IntRange(0, 3).Draw(t, "groupclass") {
		case 0:
			g[i] = 0
		case 1:
			g[i] = rapid.SampledFrom([]int{1, 0xf, 0xff, 0xfff, 0xffff, 0xfe80, 0xfc00, 0xfd00, 0x2001, 0xdb8, 0xabcd}).Draw(t, "group")
		default:
			g[i] = rapid.IntRange(0, 0xffff).Draw(t, "group")
		}
	}
	embed := rapid.IntRange(0, 3).Draw(t, "embed4") == 0
	ngroups := 8
	tail := ""
	if embed {
		ngroups = 6
		tail = IPv4(t)
		if rapid.Bool().Draw(t, "mapped") {
			g = [8]int{0, 0, 0, 0, 0, 0xffff}
		}
	}
	// choose a zero run to compress (possibly none)
	type run struct{ s, e int }
	var runs []run
	for i := 0; i < ngroups; i++ {
		if g[i] != 0 {
			continue
		}
		for j := i; j < ngroups && g[j] == 0; j++ {
			runs = append(runs, run{i, j + 1})
		}
	}
	parts := []string{}
	compress := len(runs) > 0 && rapid.IntRange(0, 4).Draw(t, "compress") != 0
	if compress {
		r := rapid.SampledFrom(runs).Draw(t, "zerorun")
		var left, right []string
		for i := 0; i < r.s; i++ {
			left = append(left, hexGroup(t, g[i]))
		}
		for i := r.e; i < ngroups; i++ {
			right = append(right, hexGroup(t, g[i]))
		}
		s := strings.Join(left, ":") + "::" + strings.Join(right, ":")
		if embed {
			if len(right) > 0 {
				s += ":"
			}
			s += tail
		}
		return s
	}
	for i := 0; i < ngroups; i++ {
		parts = append(parts, hexGroup(t, g[i]))
	}
	s := strings.Join(parts, ":")
	if embed {
		s += ":" + tail
	}
	return s
}

// Zone generates an interface zone name over [g-z] letters (no hex digits, so
// that text scanners can tell it from an address).
func Zone(t *rapid.T) string {
	return rapid.SampledFrom([]string{"wlan", "lo", "tun", "utun", "wg"}).Draw(t, "zone")
}

// Rendered is an address as it may appear in text.
type Rendered struct {
	Text string `json:"text"` // full rendering (with brackets, port, zone)
	Host string `json:"host"` // the bare IP literal inside it
	V6   bool   `json:"v6,omitempty"`
	Form string `json:"form"`
}

// Address renders a generated IP in one of the forms Go prints or accepts.
func Address(t *rapid.T) Rendered {
	port := func() string {
		return fmt.Sprint(rapid.OneOf(rapid.SampledFrom([]int{0, 1, 80, 443, 9001, 65535}), rapid.IntRange(0, 65535)).Draw(t, "port"))
	}
	if rapid.IntRange(0, 2).Draw(t, "family") == 0 {
		h := IPv4(t)
		if rapid.Bool().Draw(t, "withport") {
			return Rendered{Text: h + ":" + port(), Host: h, Form: "v4:port"}
		}
		return Rendered{Text: h, Host: h, Form: "v4"}
	}
	h := IPv6(t)
	switch rapid.IntRange(0, 5).Draw(t, "v6form") {
	case 0:
		return Rendered{Text: "[" + h + "]", Host: h, V6: true, Form: "[v6]"}
	case 1, 2:
		return Rendered{Text: "[" + h + "]:" + port(), Host: h, V6: true, Form: "[v6]:port"}
	case 3:
		if rapid.Bool().Draw(t, "zonebracket") {
			return Rendered{Text: "[" + h + "%" + Zone(t) + "]:" + port(), Host: h, V6: true, Form: "[v6%zone]:port"}
		}
		return Rendered{Text: h + "%" + Zone(t), Host: h, V6: true, Form: "v6%zone"}
	default:
		return Rendered{Text: h, Host: h, V6: true, Form: "v6"}
	}
}
