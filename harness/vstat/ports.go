package vstat

import (
	"fmt"
	"os"
	"strconv"
	"strings"
	"time"
)

// ListenerOwnedBy reports whether process pid holds a listening TCP socket on 127.0.0.1:port (or on the
// wildcard address). The harnesses pick a port by listen-and-close and hand it to the code under test, which
// binds it a moment later; under load another process can take the port in between, and a plain "can I
// connect?" test then succeeds against a foreign listener. Ownership is read from /proc (Linux only).
func ListenerOwnedBy(pid, port int) bool {
	inodes := map[string]bool{}
	for _, f := range []string{"/proc/net/tcp", "/proc/net/tcp6"} {
		b, err := os.ReadFile(f)
		if err != nil {
			continue
		}
		for _, line := range strings.Split(string(b), "\n")[1:] {
			fs := strings.Fields(line)
			if len(fs) < 10 || fs[3] != "0A" {
				continue
			}
			i := strings.LastIndexByte(fs[1], ':')
			if i < 0 {
				continue
			}
			p, err := strconv.ParseInt(fs[1][i+1:], 16, 32)
			if err != nil || int(p) != port {
				continue
			}
			inodes[fs[9]] = true
		}
	}
	if len(inodes) == 0 {
		return false
	}
	dir := fmt.Sprintf("/proc/%d/fd", pid)
	ents, err := os.ReadDir(dir)
	if err != nil {
		return false
	}
	for _, e := range ents {
		l, err := os.Readlink(dir + "/" + e.Name())
		if err != nil || !strings.HasPrefix(l, "socket:[") {
			continue
		}
		if inodes[strings.TrimSuffix(strings.TrimPrefix(l, "socket:["), "]")] {
			return true
		}
	}
	return false
}

// WaitListener waits until pid listens on port.
func WaitListener(pid, port int, d time.Duration) bool {
	for end := time.Now().Add(d); time.Now().Before(end); time.Sleep(20 * time.Millisecond) {
		if ListenerOwnedBy(pid, port) {
			return true
		}
	}
	return false
}
