module verif.local/vstat

go 1.25

require pgregory.net/rapid v1.3.0
