module verif.local/vstat

go 1.25
