#!/bin/bash
# usage: lib/seedtest.sh <worktree> <seed-id> <PROP> [tier] : applies <worktree>/seed.patch to /repo, runs the check, reverts.
wt=$1; id=$2; prop=$3; tier=${4:-quick}
cd /repo || exit 2
if [ -n "$(git status --short)" ]; then echo "/repo not clean"; exit 2; fi
git apply "$wt/seed.patch" || { echo "patch does not apply"; exit 2; }
git diff --stat | tail -1
cd /verif
s=$(date +%s)
./check $prop $tier > /tmp/seedtest.$id.out 2>&1; rc=$?
e=$(date +%s)
git -C /repo checkout -- .
git -C /repo status --short
echo "seed $id prop $prop tier $tier rc=$rc time=$((e-s))s"
grep -m3 -A2 "VIOLATION" /tmp/seedtest.$id.out | cut -c1-400
tail -1 /tmp/seedtest.$id.out | cut -c1-200
exit $rc
