#!/bin/bash
# usage: lib/seedtest.sh <worktree-with-seed.patch> <seed-id> <PROP> [tier]
# Applies <worktree>/seed.patch (or /verif/seeded/<id>/patch.diff) in a throw-away worktree of /repo's HEAD and runs the
# check against it with VERIF_REPO (so that /repo itself, and anything running against it, is left alone).
# The registered checks themselves always build from /repo; `git -C /repo apply` + check + `git checkout -- .` is equivalent.
wt=$1; id=$2; prop=$3; tier=${4:-quick}
patch="$wt/seed.patch"; [ -f "$patch" ] || patch="/verif/seeded/$id/patch.diff"
sw=/tmp/seedwt.$$
git -C /repo worktree add -q --detach $sw HEAD || exit 2
( cd $sw && git apply "$patch" ) || { echo "patch does not apply"; git -C /repo worktree remove --force $sw; exit 2; }
( cd $sw && git diff --stat | tail -1 )
cd /verif
s=$(date +%s)
VERIF_REPO=$sw ./check $prop $tier > /tmp/seedtest.$id.out 2>&1; rc=$?
e=$(date +%s)
git -C /repo worktree remove --force $sw
echo "seed $id prop $prop tier $tier rc=$rc time=$((e-s))s"
grep -m3 -A2 "VIOLATION" /tmp/seedtest.$id.out | cut -c1-400
tail -1 /tmp/seedtest.$id.out | cut -c1-200
git -C /verif checkout -q -- evidence 2>/dev/null
exit $rc
