#!/bin/bash
# usage: lib/seedsweep.sh [tier-filter] -- runs every kept seeded change against the check of its property
# (in a throw-away worktree, via lib/seedtest.sh) and writes seeded/SWEEP.md: which are caught now.
# Seeds recorded as caught only in the thorough tier are run in that tier unless tier-filter is "quick".
cd /verif
only=${1:-all}
out=seeded/SWEEP.md
echo "# Seed sweep $(date -u +%Y-%m-%dT%H:%MZ), /repo $(git -C /repo rev-parse --short HEAD), /verif $(git rev-parse --short HEAD)" > $out
echo "" >> $out
echo "| seed | property | tier | result | seconds |" >> $out
echo "|------|----------|------|--------|---------|" >> $out
for d in seeded/*/; do
  id=$(basename $d)
  [ -f $d/meta.json ] || continue
  read prop tier neutral < <(python3 - "$d/meta.json" <<'PY'
import json,sys
m=json.load(open(sys.argv[1]))
r=m.get('verif_results') or [{}]
tier=r[-1].get('tier','quick')
print(m.get('property','?'), tier if tier in ('quick','thorough') else 'quick', 'neutral' if m.get('neutralised_by') else 'live')
PY
)
  if [ "$neutral" = neutral ]; then echo "| $id | $prop | - | neutralised by a later fix (not run) | - |" >> $out; continue; fi
  if [ "$only" = quick ] && [ "$tier" != quick ]; then echo "| $id | $prop | $tier | skipped (thorough only) | - |" >> $out; continue; fi
  s=$(date +%s)
  if [ "$tier" = thorough ] && [ "$prop" = C01 ]; then export VERIF_ONLY_UNITS=c01_system; else unset VERIF_ONLY_UNITS; fi
  lib/seedtest.sh /nonexistent $id $prop $tier > /tmp/seedsweep.$id.log 2>&1; rc=$?
  e=$(date +%s)
  case $rc in 1) res=caught;; 0) res="**MISSED**";; *) res="infra rc=$rc";; esac
  echo "| $id | $prop | $tier | $res | $((e-s)) |" >> $out
  echo "$id $prop $tier $res $((e-s))s"
  rm -f /tmp/seedsweep.$id.log
done
git checkout -q -- evidence 2>/dev/null
