#!/bin/bash
# Runs every property's check (tier $1, default quick) sequentially, validates evidence.
cd /verif
tier=${1:-quick}
fail=0
for p in $(python3 -c "import json;print(' '.join(json.loads(l)['id'] for l in open('properties.jsonl')))"); do
  s=$(date +%s)
  out=$(./check $p $tier 2>&1); rc=$?
  e=$(date +%s)
  echo "$p rc=$rc $((e-s))s $(echo "$out" | tail -1 | cut -c1-160)"
  if [ $rc -ne 0 ]; then fail=1; echo "$out" | head -20; fi
done
python3-vt lib/validate.py
git -C /repo status --short
exit $fail
