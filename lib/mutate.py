#!/usr/bin/env python3
"""usage: lib/mutate.py <target-set> [max-per-file] [workers]

Systematic sensitivity sweep, complementary to the hand-written seeded changes: small syntactic mutants
(relational and boolean operators, boundary constants, dropped statements) of the files a property is
anchored in. A mutant is interesting only if it compiles AND the package's own tests still pass (the brief's
"passes the existing tests"); those are then run against the quick check of the file's properties in a
throw-away worktree (VERIF_REPO). Result: seeded/MUTANTS-<target-set>.md (killed / survived per mutant).
Survivors are either equivalent mutants or gaps; they are listed with their diff for inspection.

Nothing here is part of a registered check; /repo itself is never touched (git worktrees under /tmp).
"""
import concurrent.futures as cf
import json
import os
import random
import re
import subprocess
import sys
import time

VERIF = "/verif"
ENV = dict(os.environ, GOFLAGS="-mod=mod", GOPROXY="off", GOSUMDB="off", GOTOOLCHAIN="local")

# file -> (package dir for go test, [properties whose quick check should kill a mutant], go test -run filter or None)
TARGETS = {
    "codecs": {
        "common/encapsulation/encapsulation.go": ("common/encapsulation", ["C09"]),
        "common/amp/armor_decoder.go": ("common/amp", ["C10"]),
        "common/amp/armor_encoder.go": ("common/amp", ["C10"]),
        "common/amp/path.go": ("common/amp", ["C11"]),
        "common/amp/cache.go": ("common/amp", ["C11"]),
        "common/messages/proxy.go": ("common/messages", ["C12"]),
        "common/messages/client.go": ("common/messages", ["C12"]),
        "common/bridgefingerprint/fingerprint.go": ("common/bridgefingerprint", ["C12"]),
        "common/namematcher/matcher.go": ("common/namematcher", ["C06"]),
        "common/safelog/log.go": ("common/safelog", ["C07"]),
        "common/util/util.go": ("common/util", ["C08", "C13"]),
    },
    "adapters": {
        "common/turbotunnel/clientmap.go": ("common/turbotunnel", ["C17"]),
        "common/turbotunnel/queuepacketconn.go": ("common/turbotunnel", ["C17"]),
        "common/turbotunnel/redialpacketconn.go": ("common/turbotunnel", ["C17"]),
        "server/lib/turbotunnel.go": ("server/lib", ["C18"]),
        "server/lib/http.go": ("server/lib", ["C05", "C18"]),
        "server/lib/snowflake.go": ("server/lib", ["C05", "C18"]),
        "common/ipsetsink/sinkcluster/writer.go": ("common/ipsetsink/sinkcluster", ["C19"]),
        "common/ipsetsink/sinkcluster/reader.go": ("common/ipsetsink/sinkcluster", ["C19"]),
        "common/ipsetsink/sink.go": ("common/ipsetsink", ["C19"]),
    },
    "broker": {
        "broker/ipc.go": ("broker", ["C02", "C03", "C04", "C19"]),
        "broker/broker.go": ("broker", ["C02", "C03", "C04", "C06"]),
        "broker/http.go": ("broker", ["C14"]),
        "broker/amp.go": ("broker", ["C14", "C11"]),
        "broker/snowflake-heap.go": ("broker", ["C03"]),
        "broker/metrics.go": ("broker", ["C19"]),
        "broker/prometheus.go": ("broker", ["C19"]),
        "broker/bridge-list.go": ("broker", ["C02"]),
    },
    "endpoints": {
        "client/lib/peers.go": ("client/lib", ["C15"]),
        "client/lib/webrtc.go": ("client/lib", ["C15", "C13"]),
        "client/lib/rendezvous.go": ("client/lib", ["C15", "C11"]),
        "client/lib/rendezvous_http.go": ("client/lib", ["C11"]),
        "client/lib/rendezvous_ampcache.go": ("client/lib", ["C11"]),
        "proxy/lib/tokens.go": ("proxy/lib", ["C16"]),
        "proxy/lib/snowflake.go": ("proxy/lib", ["C16", "C06", "C13"]),
    },
}

OPS = [
    (r"==", "!="), (r"!=", "=="),
    (r"<=", "<"), (r">=", ">"),
    (r"(?<![<\-])<(?![<=\-])", "<="), (r"(?<![>\-=])>(?![>=])", ">="),
    (r"&&", "||"), (r"\|\|", "&&"),
    (r"\btrue\b", "false"), (r"\bfalse\b", "true"),
    (r"\+ 1\b", "+ 2"), (r"- 1\b", "- 0"), (r"\+ 1\b", "+ 0"),
    (r"\b0x3f\b", "0x7f"), (r"\b0x7f\b", "0x3f"), (r"\b0x80\b", "0x40"),
    (r"\b63\b", "64"), (r"\b64\b", "63"), (r"\b8\b", "7"), (r"\b20\b", "21"), (r"\b32\b", "33"),
    (r"\b1024\b", "1023"), (r"\b10 \* time\.Second", "11 * time.Second"),
    (r"!(\w)", r"\1"),
]


def sh(cmd, cwd, timeout):
    try:
        p = subprocess.run(cmd, cwd=cwd, env=ENV, stdout=subprocess.PIPE, stderr=subprocess.STDOUT, timeout=timeout, text=True)
        return p.returncode, p.stdout
    except subprocess.TimeoutExpired as e:
        return 124, (e.stdout or "") if isinstance(e.stdout, str) else ""


def mutants_of(path, text, limit, rng):
    lines = text.split("\n")
    out = []
    in_block = False
    for i, line in enumerate(lines):
        st = line.strip()
        if st.startswith("/*"):
            in_block = True
        if in_block:
            if "*/" in st:
                in_block = False
            continue
        if not st or st.startswith("//") or st.startswith("import") or st.startswith("package") or st.startswith('"'):
            continue
        code = line.split("//")[0] if '"' not in line else line
        if "log." in code or "fmt.Errorf" in code or "errors.New" in code:
            continue  # messages, not behaviour
        for pat, rep in OPS:
            for m in re.finditer(pat, code):
                # not inside a string literal (rough: even number of quotes before the match)
                if code[:m.start()].count('"') % 2 == 1 or code[:m.start()].count("`") % 2 == 1:
                    continue
                new = code[:m.start()] + re.sub(pat, rep, code[m.start():m.end()]) + code[m.end():]
                if new != code:
                    out.append((i, line, new + (line[len(code):] if len(code) < len(line) else ""), "%s -> %s" % (pat, rep)))
        # drop a plain call statement or an assignment-free statement
        if re.match(r"^\s*[\w\.\[\]\(\)\*&]+\([^{]*\)\s*$", code) and not st.startswith(("defer", "go ", "return", "if", "for", "switch", "case", "func", "}")):
            out.append((i, line, re.match(r"^\s*", line).group(0) + "_ = 0 // dropped: " + st.replace("*/", ""), "drop statement"))
    rng.shuffle(out)
    return out[:limit]


def run_mutant(job):
    wt, rel, (pkg, props), (lineno, old, new, op) = job
    path = os.path.join(wt, rel)
    sh(["git", "checkout", "-q", "--", "."], wt, 60)
    text = open(path).read().split("\n")
    if text[lineno] != old:
        return None
    text[lineno] = new
    open(path, "w").write("\n".join(text))
    res = {"file": rel, "line": lineno + 1, "op": op, "old": old.strip(), "new": new.strip()}
    rc, out = sh(["go", "test", "-ldflags=-checklinkname=0", "-vet=off", "-count=1", "-run", "^$", "./" + pkg + "/"], wt, 600)
    if rc != 0:
        res["result"] = "does not compile"
        return res
    rc, out = sh(["go", "vet", "./" + pkg], wt, 600) if False else (0, "")
    rc, out = sh(["go", "test", "-ldflags=-checklinkname=0", "-vet=off", "-count=1", "-timeout", "300s", "./" + pkg + "/"], wt, 400)
    if rc != 0:
        res["result"] = "killed by the package's own tests"
        return res
    t0 = time.time()
    for prop in props:
        env = dict(ENV, VERIF_REPO=wt, VERIF_BUILD_SUFFIX=os.path.basename(wt))
        try:
            p = subprocess.run([os.path.join(VERIF, "check"), prop, "quick"], cwd=VERIF, env=env, stdout=subprocess.PIPE, stderr=subprocess.STDOUT, timeout=1500, text=True)
            rc, out = p.returncode, p.stdout
        except subprocess.TimeoutExpired:
            rc, out = 124, ""
        if rc == 1:
            m = re.search(r"VIOLATION[^\n]*\n\s*([^\n]*)", out)
            res["result"] = "KILLED by %s" % prop
            res["how"] = (m.group(1).strip()[:200] if m else "")
            res["secs"] = int(time.time() - t0)
            return res
        if rc not in (0, 1):
            res.setdefault("infra", []).append("%s rc=%d" % (prop, rc))
    res["result"] = "SURVIVED" if not res.get("infra") else "check ended with an infrastructure error (time-out)"
    res["secs"] = int(time.time() - t0)
    return res


def main():
    tset = sys.argv[1]
    limit = int(sys.argv[2]) if len(sys.argv) > 2 else 12
    workers = int(sys.argv[3]) if len(sys.argv) > 3 else 2
    rng = random.Random(20260926)
    head = subprocess.check_output(["git", "-C", "/repo", "rev-parse", "HEAD"], text=True).strip()
    wts = []
    for w in range(workers):
        wt = "/tmp/mutwt%d" % w
        subprocess.run(["git", "-C", "/repo", "worktree", "remove", "--force", wt], stdout=subprocess.DEVNULL, stderr=subprocess.DEVNULL)
        subprocess.check_call(["git", "-C", "/repo", "worktree", "add", "-q", "--detach", wt, head])
        wts.append(wt)
    jobs = []
    for rel, spec in TARGETS[tset].items():
        text = open(os.path.join("/repo", rel)).read()
        for mu in mutants_of(rel, text, limit, rng):
            jobs.append((rel, spec, mu))
    print("%d mutants" % len(jobs), flush=True)
    results = []
    # each worker owns one worktree and takes jobs in turn
    def worker(w):
        out = []
        for k, (rel, spec, mu) in enumerate(jobs):
            if k % workers != w:
                continue
            r = run_mutant((wts[w], rel, spec, mu))
            if r:
                out.append(r)
                print("%s:%d %s => %s %s" % (r["file"], r["line"], r["op"], r["result"], r.get("how", "")[:80]), flush=True)
        return out
    with cf.ThreadPoolExecutor(max_workers=workers) as ex:
        for part in ex.map(worker, range(workers)):
            results += part
    for wt in wts:
        subprocess.run(["git", "-C", "/repo", "worktree", "remove", "--force", wt])
    json.dump(results, open(os.path.join(VERIF, "seeded", "MUTANTS-%s.json" % tset), "w"), indent=1)
    n = len(results)
    nc = sum(1 for r in results if r["result"] == "does not compile")
    nt = sum(1 for r in results if r["result"].startswith("killed by the package"))
    nk = sum(1 for r in results if r["result"].startswith("KILLED"))
    ns = sum(1 for r in results if r["result"] == "SURVIVED")
    with open(os.path.join(VERIF, "seeded", "MUTANTS-%s.md" % tset), "w") as f:
        f.write("# Syntactic mutants, target set %s (/repo %s)\n\n" % (tset, head[:7]))
        f.write("%d mutants: %d do not compile, %d are killed by the package's own tests, **%d pass the existing tests; of these %d are killed by the quick checks and %d survive**.\n\n" % (n, nc, nt, nk + ns, nk, ns))
        f.write("| file:line | mutation | result | how |\n|---|---|---|---|\n")
        for r in sorted(results, key=lambda r: (r["result"] != "SURVIVED", r["file"], r["line"])):
            if r["result"] in ("does not compile", "killed by the package's own tests"):
                continue
            f.write("| %s:%d | `%s` -> `%s` | %s | %s |\n" % (r["file"], r["line"], r["old"].replace("|", "\\|")[:90], r["new"].replace("|", "\\|")[:90], r["result"], r.get("how", "").replace("|", "\\|")[:120]))
    print("done: %d mutants, %d pass existing tests, %d killed, %d survived" % (n, nk + ns, nk, ns))


if __name__ == "__main__":
    main()
