"""Registry of properties -> harness units for /verif/check.

unit keys: name (== vstat unit name for single-test units), kind ext|inpkg, pkg, run (regexp of test
functions), checks{tier}, shards{tier}, timeout{tier} seconds, race, tiers, fuzz/fuzztime, script.
"""


def U(name, kind, pkg, run, checks, shards=(8, 16), timeout=(240, 1800), **kw):
    d = {"name": name, "kind": kind, "pkg": pkg, "run": run,
         "checks": {"quick": checks[0], "thorough": checks[1]},
         "shards": {"quick": shards[0], "thorough": shards[1]},
         "timeout": {"quick": timeout[0], "thorough": timeout[1]}}
    d.update(kw)
    return d


def F(name, pkg, fuzz, secs):
    return {"name": name, "kind": "ext", "pkg": pkg, "fuzz": fuzz, "fuzztime": {"quick": 0, "thorough": secs},
            "tiers": ["thorough"]}


PROPS = {}

PROPS["C09"] = {
    "rule": ("c09_framing: rapid-generated chunk/padding sequences x reader behaviours, oracle = independent reference "
             "decoder; a case is non-trivial when the reader fragments / returns (0,nil) / returns data together with EOF / "
             "is an io.Pipe written once per packet AND the stream holds >= 2 data chunks (or >= 2 arbitrary bytes). "
             "c09_budget / c09_padding: every n in the exhaustive range plus random n; non-trivial = n within 4 of a "
             "prefix-size boundary or beyond the single-chunk range. c09_alloc: hostile 3-byte prefixes; non-trivial = "
             "announced length exceeds the bytes present. Distinct = distinct hash of the serialised case."),
    "assumptions": ["payload bytes are a pure function of (seed, length)",
                    "a stream cut exactly after three continuation bytes may be reported as too-long or as unexpected EOF"],
    "units": [
        U("c09_framing", "ext", "c09", "^TestVerifC09Framing$", (3000, 40000)),
        U("c09_budget", "ext", "c09", "^TestVerifC09Budget$", (2000, 20000), shards=(4, 8)),
        U("c09_padding", "ext", "c09", "^TestVerifC09Padding$", (500, 5000), shards=(2, 4)),
        U("c09_alloc", "ext", "c09", "^TestVerifC09Alloc$", (300, 3000), shards=(2, 4)),
    ],
}

META = {}
META["C09"] = {
    "level": ("Sampled exploration: ~300k generated streams x reader behaviours per quick run compared against an "
              "independent reference decoder, plus exhaustive enumeration of the budget helper (to 2^18 quick / 2^21 "
              "thorough) and of padding sizes; native fuzzing in the thorough tier. Right level because the property "
              "quantifies over all inputs and all io.Reader behaviours; no finite proof is attempted."),
    "note": "Trusts the harness' reference decoder (40 lines) and that the generated reader behaviours stay inside the io.Reader contract.",
    "technique": "property-based testing (rapid) with reference-model oracle + exhaustive small ranges + native fuzzing",
}

PROPS["C07"] = {
    "rule": ("c07_scrub: 1-5 generated log lines, each built from real log templates or from filler words over [g-zG-Z], "
             "separators drawn from ASCII whitespace and punctuation other than ':' and '_', and 0-8 generated addresses "
             "(IPv4; IPv6 full / every '::' position / IPv4-embedded / mixed case, rendered bare, ip:port, [ip6], [ip6]:port, "
             "ip6%zone, [ip6%zone]:port), pushed through Scrub and through LogScrubber under a generated splitting into "
             "Write calls. Oracles: no address text or address fragment in the output, output independent of the splitting, "
             "every sink write ends in a newline, unterminated tail never emitted. Non-trivial = a line with >= 2 addresses "
             "or a write boundary inside an address. c07_event: event String() methods. c07_concurrent: 2-6 goroutines "
             "writing whole lines; output must be a permutation of the scrubbed lines (all non-trivial)."),
    "assumptions": ["'_' counts as a word character, not as delimiting punctuation",
                    "': ' (colon followed by whitespace) after an address is accepted as a right delimiter, as the scrubber's own delimiter class does",
                    "filler text contains no digits and keeps hex letters away from ':' and '.'"],
    "units": [
        U("c07_scrub", "ext", "c07", "^TestVerifC07Scrub$", (6000, 100000)),
        U("c07_event", "ext", "c07", "^TestVerifC07Event$", (3000, 30000), shards=(2, 4)),
        U("c07_concurrent", "ext", "c07", "^TestVerifC07Concurrent$", (300, 3000), shards=(2, 4)),
    ],
}
META["C07"] = {
    "level": ("Sampled exploration: tens of thousands of generated lines per run over a structured address generator "
              "covering every textual form Go prints or accepts and every delimiter class of the statement, with a "
              "survivor scan as oracle and a metamorphic split-invariance oracle for the writer; the concurrent-writer part "
              "also runs under the race detector in C20."),
    "note": "Trusts the survivor scan (runs over [0-9A-Fa-f:.] with a hex digit and a separator) and the filler alphabet that makes it exact.",
    "technique": "property-based testing (rapid): structured address/line generator, survivor-scan oracle, metamorphic split invariance",
}
