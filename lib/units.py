"""Registry of properties -> harness units for /verif/check.

unit keys: name (== vstat unit name for single-test units), kind ext|inpkg, pkg, run (regexp of test
functions), checks{tier}, shards{tier}, timeout{tier} seconds, race, tiers, fuzz/fuzztime, script.
"""


def U(name, kind, pkg, run, checks, shards=(8, 16), timeout=(240, 1800), **kw):
    d = {"name": name, "kind": kind, "pkg": pkg, "run": run,
         "checks": {"quick": checks[0], "thorough": checks[1]},
         "shards": {"quick": shards[0], "thorough": shards[1]},
         "timeout": {"quick": timeout[0], "thorough": timeout[1]}}
    d.update(kw)
    return d


def F(name, pkg, fuzz, secs):
    return {"name": name, "kind": "ext", "pkg": pkg, "fuzz": fuzz, "fuzztime": {"quick": 0, "thorough": secs},
            "tiers": ["thorough"]}


PROPS = {}

PROPS["C09"] = {
    "rule": ("c09_framing: rapid-generated chunk/padding sequences x reader behaviours, oracle = independent reference "
             "decoder; a case is non-trivial when the reader fragments / returns (0,nil) / returns data together with EOF / "
             "is an io.Pipe written once per packet AND the stream holds >= 2 data chunks (or >= 2 arbitrary bytes). "
             "c09_budget / c09_padding: every n in the exhaustive range plus random n; non-trivial = n within 4 of a "
             "prefix-size boundary or beyond the single-chunk range. c09_alloc: hostile 3-byte prefixes; non-trivial = "
             "announced length exceeds the bytes present. Distinct = distinct hash of the serialised case."),
    "assumptions": ["payload bytes are a pure function of (seed, length)",
                    "a stream cut exactly after three continuation bytes may be reported as too-long or as unexpected EOF"],
    "units": [
        U("c09_framing", "ext", "c09", "^TestVerifC09Framing$", (6000, 60000)),
        U("c09_budget", "ext", "c09", "^TestVerifC09Budget$", (2000, 20000), shards=(4, 8)),
        U("c09_padding", "ext", "c09", "^TestVerifC09Padding$", (500, 5000), shards=(2, 4)),
        U("c09_alloc", "ext", "c09", "^TestVerifC09Alloc$", (300, 3000), shards=(2, 4)),
    ],
}

META = {}
META["C09"] = {
    "level": ("Sampled exploration: ~300k generated streams x reader behaviours per quick run compared against an "
              "independent reference decoder, plus exhaustive enumeration of the budget helper (to 2^18 quick / 2^21 "
              "thorough) and of padding sizes; native fuzzing in the thorough tier. Right level because the property "
              "quantifies over all inputs and all io.Reader behaviours; no finite proof is attempted."),
    "note": "Trusts the harness' reference decoder (40 lines) and that the generated reader behaviours stay inside the io.Reader contract.",
    "technique": "property-based testing (rapid) with reference-model oracle + exhaustive small ranges + native fuzzing",
}

PROPS["C07"] = {
    "rule": ("c07_scrub: 1-5 generated log lines, each built from real log templates or from filler words over [g-zG-Z], "
             "separators drawn from ASCII whitespace and punctuation other than ':' and '_', and 0-8 generated addresses "
             "(IPv4; IPv6 full / every '::' position / IPv4-embedded / mixed case, rendered bare, ip:port, [ip6], [ip6]:port, "
             "ip6%zone, [ip6%zone]:port), pushed through Scrub and through LogScrubber under a generated splitting into "
             "Write calls. Oracles: no address text or address fragment in the output, output independent of the splitting, "
             "every sink write ends in a newline, unterminated tail never emitted. Non-trivial = a line with >= 2 addresses "
             "or a write boundary inside an address. c07_event: event String() methods. c07_concurrent: 2-6 goroutines "
             "writing whole lines; output must be a permutation of the scrubbed lines (all non-trivial)."),
    "assumptions": ["'_' counts as a word character, not as delimiting punctuation",
                    "': ' (colon followed by whitespace) after an address is accepted as a right delimiter, as the scrubber's own delimiter class does",
                    "filler text contains no digits and keeps hex letters away from ':' and '.'"],
    "units": [
        U("c07_scrub", "ext", "c07", "^TestVerifC07Scrub$", (6000, 100000)),
        U("c07_event", "ext", "c07", "^TestVerifC07Event$", (3000, 30000), shards=(2, 4)),
        U("c07_concurrent", "ext", "c07", "^TestVerifC07Concurrent$", (300, 3000), shards=(2, 4)),
    ],
}
META["C07"] = {
    "level": ("Sampled exploration: tens of thousands of generated lines per run over a structured address generator "
              "covering every textual form Go prints or accepts and every delimiter class of the statement, with a "
              "survivor scan as oracle and a metamorphic split-invariance oracle for the writer; the concurrent-writer part "
              "also runs under the race detector in C20."),
    "note": "Trusts the survivor scan (runs over [0-9A-Fa-f:.] with a hex digit and a separator) and the filler alphabet that makes it exact.",
    "technique": "property-based testing (rapid): structured address/line generator, survivor-scan oracle, metamorphic split invariance",
}

PROPS["C08"] = {
    "rule": ("c08_strip: SDP descriptions with 1-3 media sections and 0-12 candidate attributes each (host/srflx/prflx/relay, "
             "udp/tcp, addresses on and around every range boundary of the statement, IPv4-mapped forms, mDNS names, "
             "malformed lines) or arbitrary text; oracle = line diff against an independent classifier (netip prefixes): "
             "every well-formed local host candidate gone, every other line present byte-identical and in order, "
             "idempotence. Non-trivial = at least one boundary address, one candidate that must be removed and one that "
             "must be kept. c08_islocal: exhaustive over the first two IPv4 octets (also IPv4-mapped) and the first IPv6 "
             "group, plus generated addresses."),
    "assumptions": ["for malformed candidate lines (bad port/priority/component, unknown transport or type, zone, truncated) either outcome is accepted",
                    "comparison is made on pion's canonical re-marshalling of the input, which is what the stripping step emits"],
    "units": [
        U("c08_strip", "ext", "c08", "^TestVerifC08Strip$", (8000, 60000)),
        U("c08_islocal", "ext", "c08", "^TestVerifC08IsLocal$", (2000, 20000), shards=(2, 4)),
    ],
}
META["C08"] = {
    "level": ("Sampled exploration with a boundary-aware generator and an independent address classifier as reference "
              "model; the address classification itself is enumerated exhaustively over the octets/groups that decide it."),
    "note": "Trusts the harness' candidate-line classifier and pion's SDP parser for canonicalising the generated text.",
    "technique": "property-based testing (rapid): reference-model oracle (line diff + independent classifier), idempotence, exhaustive address-prefix enumeration",
}

PROPS["C12"] = {
    "rule": ("c12_messages: for each of the six messages either (roundtrip) generated field values - valid UTF-8 strings of "
             "any content incl. quotes/control characters/64 KB, all ints, NAT names and non-names, proxy types, fingerprints "
             "of right and wrong length/alphabet, pattern present/absent - encoded then decoded and compared with the "
             "documented defaults; or (doc) a hand-built JSON document with members absent / of another JSON type / with "
             "generated version strings, which must be rejected when the protocol forbids it; or (raw) arbitrary bytes, "
             "wrong-shape JSON or a valid encoding with one mutation, on which a successful decode must satisfy the "
             "validity predicate. Non-trivial = a string needing JSON escaping, an optional field absent, a doc or raw case."),
    "assumptions": ["versions '1', '1.', '1.x.y' may be accepted or rejected; only a major version other than 1 must be rejected"],
    "units": [U("c12_messages", "ext", "c12", "^TestVerifC12Messages$", (20000, 150000))],
}
META["C12"] = {
    "level": "Sampled exploration of the field space and of hostile byte strings for all six codecs, with a written-down protocol model (defaults + validity predicate) as oracle; native fuzzing per decoder in the thorough tier.",
    "note": "Trusts the harness' statement of the protocol defaults and validity rules, taken from the message documentation in common/messages.",
    "technique": "property-based testing (rapid): round-trip + validity-predicate oracle over generated fields, hand-built documents and mutated encodings",
}

PROPS["C13"] = {
    "rule": ("c13_sessdesc: (roundtrip) four SDP types x arbitrary valid-UTF-8 SDP text; (json) objects whose members "
             "type/sdp/Type/SDP/x are generated in any order, duplicated, missing, and of every JSON type; (text) arbitrary "
             "strings and non-object JSON. Oracle: round trip equality; otherwise a value of one of the four types that "
             "echoes the message's members, or an error; a panic is a violation. Non-trivial = json case carrying both "
             "members, or a round trip whose SDP needs JSON escaping. "
             "c13_remoteip: SDP text assembled from session/media c= lines and candidate attributes with generated addresses (local, "
             "boundary, mapped, junk, truncated lines) or arbitrary strings, fed to the proxy's address extraction: no panic; a returned "
             "address is never local/loopback/unspecified and equals the first remote candidate address. Non-trivial = structured text "
             "with at least one candidate. c13_proxy_offers / c13_client_answers: a real pion offer (answer) re-typed (offer, answer, "
             "pranswer, rollback, empty, upper case, unknown) and/or with 0-2 of 32 named SDP mutations (ICE credentials, fingerprint, "
             "setup, mid, media/connection/origin lines dropped or duplicated, truncation, r= line, junk line, NUL byte, LF line ends, "
             "huge port, bogus setup, short fingerprint, RTP protocol, extra audio section, ...) handed by a scripted broker to the real "
             "proxy session (runSession, real PeerConnection) / the real client peer construction: the process survives (a crash is "
             "attributed through the case journal), the call returns within the data-channel timeout plus slack, the proxy's slot comes "
             "back. All cases non-trivial (each is a damaged description)."),
    "assumptions": [],
    "units": [U("c13_sessdesc", "ext", "c13", "^TestVerifC13SessDesc$", (8000, 100000)),
              U("c13_remoteip", "inpkg", "proxy/lib", "^TestVerifC13RemoteIP$", (3000, 40000)),
              U("c13_proxy_offers", "inpkg", "proxy/lib", "^TestVerifC13ProxyOffers$", (40, 400), shards=(4, 8), timeout=(400, 3000)),
              U("c13_client_answers", "inpkg", "client/lib", "^TestVerifC13ClientAnswers$", (40, 400), shards=(4, 8), timeout=(400, 3000))],
}
META["C13"] = {
    "level": "Sampled exploration over a JSON grammar with deliberate type confusion plus arbitrary strings; oracle = round trip and 'value or error, never panic'; the in-package part covers the proxy's address extraction from SDP text.",
    "note": "A panic in the calling goroutine is observed with recover; the functions under test start no goroutines.",
    "technique": "property-based testing (rapid): grammar-based JSON generator with type confusion, round-trip and no-panic oracle; native fuzzing in the thorough tier",
}
PROPS["C06"] = {
    "rule": ("c06_superset: generated pattern pairs over {a,b,.,-,^,$} and realistic names, hostnames CONSTRUCTED as members "
             "of the second pattern (exact / with prefix) or arbitrary; oracle: IsSupersetOf(p,q) and IsMember(q,h) imply "
             "IsMember(p,h), and IsMember agrees with the documented suffix/exact semantics. c06_superset_exh: every pair "
             "of patterns of length <= 4 over {a,.,^,$} against every hostname of length <= 4 (quick) / 5 (thorough). "
             "Non-trivial = different patterns with overlapping non-empty suffixes."),
    "assumptions": [],
    "units": [
        U("c06_superset", "ext", "c06", "^TestVerifC06Superset$", (5000, 50000), shards=(4, 8)),
        U("c06_superset_exh", "ext", "c06", "^TestVerifC06SupersetExhaustive$", (1, 1), shards=(8, 16)),
    ],
}
META["C06"] = {
    "level": "Sampled exploration plus exhaustive enumeration of a small pattern space for the superset law; generated broker configurations and poll histories for the rejection rule; generated relay URLs against the proxy's own check.",
    "note": "Trusts the semantic reading of a pattern (optional ^ = exact, optional trailing $, otherwise suffix).",
    "technique": "property-based testing (rapid) with implication oracle + exhaustive small-alphabet enumeration; state-machine histories for broker/proxy parts",
}

PROPS["C10"] = {
    "rule": ("c10_armor: payload sizes 0..150 KB biased to word (24-byte) and element (992-word) boundaries +-few bytes, "
             "generated encoder Write sizes, decoder Read sizes and source fragmentation; then either cache-style rewriting "
             "(every whitespace run inside pre replaced by a generated ASCII-whitespace run, markup/text/comments inserted "
             "outside pre, body wrapped in a div) or one injected defect (unknown version, stray/nested/unterminated pre, "
             "oversized element, bad base64). Oracles: decode(encode(x)) = x; structure scanned by the harness' own scanner "
             "against a verbatim copy of the AMP boilerplate (words <= 32 bytes, element text <= 32 KiB, words spell '0'+base64); "
             "decode(rewrite(doc)) = x; defective documents must yield an error. Non-trivial = payload > one word with a "
             "non-trivial chunking, rewrite or defect. c10_decoder: documents assembled from markup/base64/whitespace pieces, "
             "optionally followed by an endless markup-free text run from a counting reader: no panic, termination, failure "
             "after at most 1 MiB consumed. Non-trivial = >= 3 pieces with a pre tag."),
    "assumptions": ["whitespace rewriting keeps each pre element within the documented 32 KiB (the decoder may reject oversized elements)",
                    "markup inserted outside pre is well-formed and contains no pre/raw-text elements"],
    "units": [
        U("c10_armor", "ext", "c10", "^TestVerifC10Armor$", (2000, 15000), wedge_is_violation=True),
        U("c10_decoder", "ext", "c10", "^TestVerifC10Decoder$", (4000, 30000), wedge_is_violation=True),
    ],
}
META["C10"] = {
    "level": "Sampled exploration with boundary-biased sizes and generated chunkings/rewrites; round-trip, structural and metamorphic oracles; hostile decoder inputs including an endless reader that makes unbounded buffering observable without a wall clock; native fuzzing of the decoder in the thorough tier.",
    "note": "Trusts the harness' copy of the AMP boilerplate and its 30-line element scanner; a decoder-goroutine panic is observed as a process crash attributed through the case journal.",
    "technique": "property-based testing (rapid): round-trip, structural validity and metamorphic (cache rewriting) oracles; fault injection into documents; native fuzzing",
}

PROPS["C11"] = {
    "rule": ("c11_path: data 0..300 bytes x cache-breaking padding of any bytes (slashes included): DecodePath('0'+padding+'/'+b64url(data)) "
             "= data, DecodePath(EncodePath(data)) = data, EncodePath output survives a URL round trip; malformed paths "
             "(no version, unknown version, no slash, bad base64) must fail. Non-trivial = padding with a slash, data length "
             "not a multiple of 3, or a malformed path. c11_cacheurl: publisher URLs built as the client builds them over "
             "generated domains (IDN, hyphens at positions 3-4, 63-byte labels, long names -> fallback, leading digits), "
             "clean paths, queries; cache URLs with path/port/userinfo; error inputs. Oracle = reference implementation of "
             "the AMP combined algorithm (basic + SHA-256/base32 fallback) and of the /c[/s]/host/path layout. Non-trivial = "
             "fallback prefix, 3-4 hyphen rule, or an error class."),
    "assumptions": ["publisher paths are clean (no empty or dot segments) and end in the encoded poll, as produced by the client (ResolveReference + EncodePath); trailing-slash publisher paths are outside the generated domain",
                    "punycode conversion (idna.ToUnicode/ToASCII) is shared with the implementation; the remaining steps of the prefix algorithm are re-implemented"],
    "units": [
        U("c11_path", "ext", "c11", "^TestVerifC11Path$", (4000, 40000), shards=(4, 8)),
        U("c11_cacheurl", "ext", "c11", "^TestVerifC11CacheURL$", (4000, 40000), shards=(4, 8)),
    ],
}
META["C11"] = {
    "level": "Sampled exploration: round-trip oracle for the path codec, reference-implementation oracle for the cache URL, differential oracle between the broker's AMP and POST endpoints, metamorphic oracle (front vs no front) and size/status boundary generation for the client's rendezvous exchange.",
    "note": "Trusts the harness' reading of the AMP cache URL specification and the recording RoundTripper standing in for the network.",
    "technique": "property-based testing (rapid): round-trip, reference-model, differential (AMP vs POST endpoint) and metamorphic (fronting) oracles",
}

PROPS["C04"] = {
    "rule": ("c04_herds: histories of 1-3 groups of 1-8 proxy polls (any NAT/type/door, scripted answer: prompt, after d, "
             "exactly around the 10 s client timeout, never, for a wrong id) followed by 1-8 client polls (all four doors) either "
             "inside the poll window or at poll time + 10 s + {-1 ns, 0, +1 ns}, plus stray /answer requests; run on a fake "
             "clock (testing/synctest) so that timers tie exactly, each case repeated 6 (quick) / 20 (thorough) times to "
             "sample interleavings at the tie. Oracle: 60 fake seconds after the last event every request has returned, each "
             "within 12 fake seconds; then /debug reports 0, gauges sum to 0, heaps and id map are empty and a fresh client of "
             "each NAT type is told 'no proxies'. Non-trivial = a case with events tied at a timer instant."),
    "assumptions": ["the route table of the harness mux mirrors main()", "interleavings at a tie are sampled by repetition on the available cores, not enumerated"],
    "units": [U("c04_herds", "inpkg", "broker", "^TestVerifC04Herds$", (800, 6000), timeout=(300, 3000), wedge_is_violation=True)],
}
META["C04"] = {
    "level": "Sampled exploration of schedules on a harness-owned clock: timer ties are constructed exactly (not hoped for), the bound is exact in fake time, and 'no ghost' is checked on internal state and through the public endpoints.",
    "note": "Trusts testing/synctest's fake clock; a lock-held deadlock freezes the fake clock and is caught by the real-time watchdog (test time-out + solitary re-run of the journalled case).",
    "technique": "property-based testing (rapid) of generated timed histories on a fake clock (testing/synctest), invariant over the recorded history",
}

PROPS["C02"] = {
    "rule": ("c02_wiring: histories of 2-24 timed events on a fake clock: proxy polls (distinct sids, any NAT/type/clients, "
             "doors IPC and POST /proxy, scripted answers prompt / delayed / around the client timeout / never / for an unknown "
             "id), client polls with unique offers (arbitrary UTF-8 incl. quotes/newlines, up to 10 KB) through the four doors "
             "(IPC, POST /client, legacy POST, AMP GET) naming no / a listed / an unlisted / a malformed fingerprint, generated "
             "bridge lists of 1-4 bridges (20- and 32-byte fingerprints, duplicate URLs), stray answers; event times drawn from a "
             "grid with exact ties at 10 s and 20 s; each case repeated 3 (quick) / 10 (thorough) times. Oracle: history "
             "invariants (1)-(5) of DESIGN.md C02. Non-trivial = >= 2 matches overlapping in time, or a match through a "
             "non-default bridge (measured on the recorded history)."),
    "assumptions": ["answers are a function of (sid, offer received), so a mis-routed answer is recognisable", "the harness mux mirrors main()'s route table"],
    "units": [U("c02_wiring", "inpkg", "broker", "^TestVerifC02Wiring$", (1000, 8000), timeout=(300, 3000), wedge_is_violation=True)],
}
META["C02"] = {
    "level": "Sampled exploration of concurrent histories on a harness-owned clock with history invariants as oracle; all four client doors and both proxy doors are exercised against the same matcher.",
    "note": "Trusts the recorded history (each request's response as seen by its caller) and that offers/answers are unique per case.",
    "technique": "property-based testing (rapid): generated timed histories on a fake clock (testing/synctest), history-invariant oracle",
}
PROPS["C03"] = {
    "rule": ("c03_matching: the C02 history generator, two thirds of the cases with pairwise distinct instants (the waiting set "
             "at each client arrival is then known exactly), one third with ties and bursts. Oracle: post-hoc reference model "
             "of the two pools: a matched proxy belongs to the client's eligible pool and was waiting at that instant; no "
             "definitely-waiting eligible proxy that stayed unmatched has fewer clients than the one given; a refused client had "
             "no definitely-waiting eligible proxy. Non-trivial = at some client arrival both pools are non-empty and the eligible "
             "pool holds >= 2 distinct client counts, or a burst of >= 3 simultaneous clients. c03_matrix: the 5x5 wire-level NAT "
             "matrix x 2 proxy doors x 4 client doors, enumerated exhaustively."),
    "assumptions": ["for polls whose arrival or expiry coincides with the client's arrival either outcome is accepted"],
    "units": [
        U("c03_matching", "inpkg", "broker", "^TestVerifC03Matching$", (1500, 12000), timeout=(300, 3000), wedge_is_violation=True),
        U("c03_matrix", "inpkg", "broker", "^TestVerifC03Matrix$", (1, 1), shards=(1, 1)),
    ],
}
META["C03"] = {
    "level": "Sampled exploration with a reference model of the two waiting pools evaluated over recorded histories (validity predicate: any minimal-load eligible proxy is accepted); NAT compatibility matrix enumerated exhaustively through the wire formats.",
    "note": "Trusts the fake clock's total order between distinct instants; tie outcomes are accepted either way.",
    "technique": "property-based testing (rapid): model-based oracle over generated histories on a fake clock; exhaustive NAT matrix",
}

PROPS["C14"] = {
    "rule": ("c14_http: sequences of 1-30 requests served by the real handlers (routes mounted as in main()) on a fake clock: "
             "method in {GET,POST,OPTIONS,HEAD,PUT,DELETE,JUNK} x route x path suffix x headers (any Snowflake-NAT-Type, content "
             "types, 5 KB header) x body (each valid message, valid with one mutation, random bytes, legacy {..} offers, "
             "99 999 / 100 000 / 100 001 / 1 MiB bodies, wrong-shape JSON), interleaved with real proxy polls. Oracle: no handler "
             "panics (that is what makes net/http drop the connection), every request returns within 12 fake seconds with a valid "
             "status, afterwards the canaries (/robots.txt, /debug = 0 available, /prometheus, fresh clients told 'no proxies') "
             "behave. Non-trivial = the sequence contains a body one mutation from valid, at the size limit, or a legacy offer. "
             "c14_legacy: for a generated (offer, NAT header, proxy present/answering/silent) the legacy request and its versioned "
             "equivalent are issued in equal broker states and must correspond (answer<->200+body, no proxies<->503, timed "
             "out<->504, other error<->4xx/5xx), and the proxy must see the identical offer and NAT. "
             "c14_concurrent: 1-6 rounds of 1-32 proxy(poll, answer)/client pairs running at once on the real clock through the real "
             "handlers, with 0-4 /debug pollers, 0-2 /metrics + /prometheus pollers, 0-2 junk senders and 0-3 unmatched polls per round "
             "running concurrently; oracle: every request gets a response with a valid status, no handler panics, the process survives "
             "(fatal runtime errors are attributed through the case journal), all requests complete (60 s / 40 s stall budgets for "
             "millisecond work), /robots.txt answers afterwards. Non-trivial = >= 2 pairs and at least one concurrent reader or junk sender. "
             "c14_wire (a small run in the quick tier, the full one in the thorough tier): the real broker binary (serving a non-empty metrics log) on a loopback port, raw HTTP/1.1 over TCP: sequences of 1-8 requests on one "
             "connection (keep-alive or pipelined), Expect: 100-continue, chunked bodies, bodies of 99 999 / 100 000 / 100 001 / 300 000 bytes, "
             "legacy offers with any NAT header, mutated polls; every request must get a response that http.ReadResponse parses completely, "
             "the process must keep accepting connections and the canaries must behave. "
             "c14_metrics_growth: the broker binary serving a 24 MB metrics log (larger than the loopback socket buffers) that the harness appends to at a "
             "generated point of the download (before the request, right after the response header, after k body bytes); strictly serial sequences of "
             "GET/HEAD /metrics and GET /robots.txt on one connection; oracle: every response is read completely without error, a /metrics body is a copy of the log "
             "up to a point between its size at the request and its size after the response, and the next request on the connection is answered. "
             "Non-trivial = at least one append during a download."),
    "assumptions": ["the in-package units deliver requests to the handlers through httptest (no TCP); connection-level behaviour (keep-alive, pipelining, dropped connections, what follows a response on the wire) is covered by the wire unit against the broker binary"],
    "units": [
        U("c14_http", "inpkg", "broker", "^TestVerifC14HTTP$", (800, 6000), timeout=(300, 3000), wedge_is_violation=True),
        U("c14_legacy", "inpkg", "broker", "^TestVerifC14Legacy$", (800, 6000), timeout=(300, 3000), wedge_is_violation=True),
        U("c14_concurrent", "inpkg", "broker", "^TestVerifC14Concurrent$", (40, 400), shards=(2, 4), timeout=(400, 3000)),
        U("c14_wire", "ext", "c14wire", "^TestVerifC14Wire$", (60, 400), shards=(2, 6), timeout=(400, 1200)),
        U("c14_metrics_growth", "ext", "c14wire", "^TestVerifC14MetricsGrowth$", (20, 150), shards=(1, 3), timeout=(400, 1200)),
    ],
}
META["C14"] = {
    "level": "Sampled exploration of request sequences against the real handlers with panics, latency (fake clock) and after-state as oracles, plus a differential oracle between the legacy and versioned client formats.",
    "note": "Handlers are driven through httptest; a handler panic is equated with a dropped connection (net/http recovers and closes).",
    "technique": "property-based testing (rapid): generated request sequences with mutation of valid messages; no-panic/latency/after-state invariants; differential legacy-vs-versioned oracle",
}
PROPS["C11"]["units"].append(U("c11_ampequiv", "inpkg", "broker", "^TestVerifC11AMPEquiv$", (800, 6000), timeout=(300, 3000), wedge_is_violation=True))
PROPS["C11"]["rule"] += (" c11_ampequiv: generated polls (valid with any NAT/fingerprint/offer, one mutation from valid, random bytes, "
                         "undecodable paths) sent through GET /amp/client/<EncodePath(poll)> and through POST /client in equal broker "
                         "states (no proxy / answering proxy / silent proxy): the de-armored AMP body must equal the POST body.")

PROPS["C19"] = {
    "rule": ("c19_bincount: every count 0..2^18 (quick) / 2^22 (thorough) and random counts to 2^40; non-trivial = not a multiple "
             "of 8. c19_counters: 1-40 events (proxy polls with/without/rejected relay pattern by (nat,type), from repeating "
             "remote addresses; client polls of each NAT type) issued sequentially or in concurrent bursts on a fake clock, then "
             "the periodic printer is called in-package, counters reset, 0-12 more events, printer again. Truth is counted by the "
             "harness from the responses it observed (idle = 'no match', matched = offer handed, denied = 'no proxies' by sent "
             "NAT, match = answer handed). Oracle: every rounded Prometheus counter and every *-count log line = ceil8(truth) for "
             "its label set, snowflake-ips-<type> = distinct addresses per type, total = sum incl. unknown; second period counts "
             "from zero. Non-trivial = >= 2 label sets and an event count that is not a multiple of 8. c19_rounded_concurrent: 1-12 writer "
             "goroutines with {1,7,8,9,100,3000,20000,50000} increments each on 1-3 label combinations of a RoundedCounterVec on real "
             "threads, 0-2 concurrent scrapers per combination; every scrape must be a multiple of 8, >= ceil8(increments returned "
             "before the scrape), <= ceil8(increments started when it ended), never decreasing; after the join = ceil8(total). "
             "Non-trivial = at least two writers on one label combination. c19_periodic: a broker context created inside the "
             "fake-clock bubble, so that its OWN 24-hour metrics goroutine runs: 1-4 days with generated numbers of denied client polls "
             "per NAT class and idle proxy polls from a generated number of addresses; after every day boundary the lines that "
             "goroutine wrote must carry that day's counts alone (rounded up to 8) and that day's distinct addresses. Non-trivial = at "
             "least two days, one of them with events. c19_journal: 1-60 address recordings (universe of 41 addresses with repetitions, occasional bulk of 200/3000 distinct "
             "ones) through ClusterWriter on a fake clock with gaps of 0 / exactly the interval / interval+1ns / 3 intervals / ms, "
             "then 1-6 query windows whose edges sit before / at / after chunk boundaries. Oracle: reference chunking model; chunks "
             "included = chunks inside the window; estimate within max(2, 3%) of the distinct addresses in those chunks; no address "
             "in clear in the journal; different masking keys give different sketches. Non-trivial = a window that cuts the journal "
             "and >= 3 recordings."),
    "assumptions": ["unique-address figures count addresses of polls that were not rejected for their relay pattern (the code's reading of 'has polled')"],
    "units": [
        U("c19_bincount", "inpkg", "broker", "^TestVerifC19BinCount$", (2000, 20000), shards=(4, 8)),
        U("c19_counters", "inpkg", "broker", "^TestVerifC19Counters$", (500, 4000), timeout=(300, 3000), wedge_is_violation=True),
        U("c19_periodic", "inpkg", "broker", "^TestVerifC19Periodic$", (150, 1500), shards=(2, 4), timeout=(300, 3000)),
        U("c19_rounded_concurrent", "inpkg", "broker", "^TestVerifC19RoundedConcurrent$", (400, 3000), shards=(4, 8), timeout=(300, 3000)),
        U("c19_journal", "ext", "c19", "^TestVerifC19Journal$", (400, 6000), timeout=(300, 3000)),
    ],
}
META["C19"] = {
    "level": "Exhaustive enumeration of the binning helper over the reachable range; sampled exploration of event multisets through the real call sites with harness-side truth; model-based check of the distinct-IP journal on a fake clock with a tolerance that a correct sketch cannot exceed.",
    "note": "Truth is derived from observed responses following doc/broker-spec.txt, not from the broker's internal branches.",
    "technique": "exhaustive enumeration + property-based testing (rapid) with reference counting model on a fake clock",
}
PROPS["C06"]["units"].append(U("c06_broker_reject", "inpkg", "broker", "^TestVerifC06BrokerReject$", (1000, 8000), timeout=(300, 3000), wedge_is_violation=True))
PROPS["C06"]["rule"] += (" c06_broker_reject: generated (allowed, presumed, proxy pattern present/empty/absent, door) followed by a compatible "
                         "waiting client: if a constructed hostname is accepted by the allowed pattern and refused by the proxy's effective "
                         "pattern the poll must be answered 'incorrect relay pattern' immediately, must not appear in /debug and the client "
                         "must be told 'no proxies'; an accepted poll must cover all sampled members and be matched.")

PROPS["C17"] = {
    "rule": ("c17_redial: 1-12 (quick) / 1-60 (thorough) scripted in-memory carriers on a fake clock, each with a dial delay, "
             "upstream/downstream traffic with caller-buffer reuse, and a scripted failure order (read side first / write side "
             "first while the reader is parked in ReadFrom / both at once / none), optional final dial error, Close once or "
             "twice, optionally during a dial. Oracle: no error from ReadFrom/WriteTo before Close or a dial error and always "
             "afterwards; never two carriers un-closed at a dial; every dialled carrier eventually closed; packets delivered "
             "unmodified and in order; after Close and quiescence zero goroutines remain inside the connection (counted from "
             "runtime.Stack, and the bubble must be able to end). Non-trivial = at least one write-first failure with a parked "
             "reader. c17_queue: 1-60 operations (QueueIncoming with buffer scribbling, ReadFrom, WriteTo with scribbling, receive "
             "from OutgoingQueue, overflow past 2048, Close twice) over 4 addresses against bounded-FIFO models. c17_clientmap: "
             "explicit-clock state machine on the inner map; c17_clientmap_rt: the real ClientMap with a short real timeout."),
    "assumptions": ["a dial in progress is not cancelled by Close (the connection never cancels its dial context before the dial returns); the scripted dialer therefore always returns"],
    "units": [
        U("c17_redial", "ext", "c17", "^TestVerifC17Redial$", (1200, 8000), timeout=(300, 3000), wedge_is_violation=True),
        U("c17_queue", "ext", "c17", "^TestVerifC17Queue$", (1000, 8000), timeout=(300, 3000)),
        U("c17_clientmap", "inpkg", "common/turbotunnel", "^TestVerifC17ClientMap$", (1500, 20000)),
        U("c17_clientmap_rt", "inpkg", "common/turbotunnel", "^TestVerifC17ClientMapRealTime$", (1, 1), shards=(2, 4)),
    ],
}
META["C17"] = {
    "level": "Sampled exploration of fault orders and operation sequences: scripted carriers on a fake clock (failure order is chosen, not raced), model-based FIFO oracle for the queue connection, explicit-clock state machine for the client map, goroutine census for leaks.",
    "note": "Goroutine leaks are observed both by a census of stacks inside the package and by the fake-clock bubble refusing to end while goroutines are blocked.",
    "technique": "property-based testing (rapid): fault-sequence generation with scripted fakes on a fake clock; model-based state-machine testing; goroutine-census invariant",
}

PROPS["C15"] = {
    "rule": ("c15_peers: maxima 1-4, a cyclic dialer script (each rendezvous returns at once or stays in flight until a scripted "
             "'release', succeeds or fails), and 1-30 operations out of {Collect, Pop, a specific peer closes on its own, release "
             "the oldest rendezvous in flight, End, start connectLoop}, always followed by a final End and release of everything. "
             "Oracle after every step: live peers <= maximum; a Pop called after a peer was closed never hands it over; End never "
             "panics; and at the end: every End and Pop call has returned (stall detector: 12 s of real time for something that "
             "takes microseconds), every peer ever created is closed, no rendezvous started after the first End returned, Pops "
             "called after End returned nil. Non-trivial = an End issued while a Collect is in flight, after peers went stale, or "
             "a repeated End. c15_rendezvous: real pion peer construction with generated ICE configurations (none, empty URL, "
             "garbage, stun/turn/stuns forms) and scripted broker outcomes (transport error, empty, non-JSON, error JSON, answer of wrong JSON "
             "type, type-confused, unparsable SDP, an offer instead of an answer; thorough: a real answer from a peer that never connects, "
             "10 s): must return (nil, error), twice in a row, without panicking. c15_teardown: 1-4 real offline pion peers (tearing one "
             "down takes real time) collected into Peers, each with a reader blocked in Read as the data path's receive loop is; a "
             "generated subset closes on its own (data-channel close / staleness) after generated delays, and whenever a reader is told "
             "its peer has ended the harness calls Pop, as the redialing data path does. Oracle: Pop never returns a peer whose reader "
             "had been told 'ended' before Pop was called (happens-before chain, not a timing guess), never the same peer twice; after "
             "End all peers are closed. Non-trivial = at least one self-closing peer among >= 2 collected. c15_conn: the connection object "
             "an application gets (peer collection + connect loop + redialing packet conn + KCP + smux stream, assembled as Dial does) over a "
             "scripted dialer whose peers refuse every Send; the application closes at once, after 50-1200 ms, or after its Write has "
             "reported the broken data path, once or twice. Oracle: Close returns within 15 s, the collection is melted, every peer "
             "obtained (also one delivered by a rendezvous in flight) is closed within 3 s, no rendezvous starts afterwards (observed "
             "for a full ReconnectTimeout in some cases). Non-trivial = Close after a write error or a double Close. c15_config: "
             "NewSnowflakeClient with generated configurations (broker URL dead / empty / malformed, AMP cache, front, ICE lists, max -1..3, "
             "uTLS ids, bridge fingerprints) returns exactly one of transport and error and never panics; the broker channel it built takes a "
             "SetNATType and then one real rendezvous attempt against the unreachable broker, which must come back with an error within 60 s. "
             "Non-trivial = a NAT type was set or a cache/front is configured. c15_binary (thorough): the client binary as a managed "
             "transport with generated -ice values and SOCKS ice=/max= arguments against a broker that refuses in five ways: alive after "
             "2-24 s of failing attempts, no broker poll in the 23 s after the SOCKS connection closed, exit within 15 s of SIGTERM."),
    "assumptions": ["the schedule is owned through explicit gates in the scripted dialer, not through a clock (sync.Mutex waits freeze a synctest bubble and Peers holds a mutex across the rendezvous)",
                    "connectLoop's 10 s pacing is real time: only its first iteration is inside a case"],
    "units": [U("c15_peers", "inpkg", "client/lib", "^TestVerifC15Peers$", (400, 5000), timeout=(400, 3000), wedge_is_violation=True),
              U("c15_rendezvous", "inpkg", "client/lib", "^TestVerifC15Rendezvous$", (12, 120), timeout=(400, 3000)),
              U("c15_teardown", "inpkg", "client/lib", "^TestVerifC15Teardown$", (60, 600), shards=(4, 8), timeout=(400, 3000)),
              U("c15_config", "inpkg", "client/lib", "^TestVerifC15Config$", (60, 600), shards=(2, 4), timeout=(300, 3000)),
              U("c15_conn", "inpkg", "client/lib", "^TestVerifC15Conn$", (30, 300), shards=(4, 8), timeout=(400, 3000)),
              U("c15_binary", "ext", "c15bin", "^TestVerifC15Binary$", (0, 8), shards=(0, 8), timeout=(400, 1200), tiers=["thorough"])],
}
META["C15"] = {
    "level": "Sampled exploration of operation histories with a scripted dialer whose blocking points are chosen by the generator (so 'End while a rendezvous is in flight' is constructed, not raced), invariants after every step; generated failing rendezvous of every kind against real pion in real time.",
    "note": "Shutdown liveness is decided as bounded liveness: everything must come to rest once the scripted rendezvous are released; real time is used only as a stall detector with a 12 s budget.",
    "technique": "property-based testing (rapid): stateful operation sequences with scripted gates, invariants after every step; fault injection into the rendezvous",
}

PROPS["C16"] = {
    "rule": ("c16_sessions: capacity 1-3 and 1-8 sessions, each with a generated outcome decided by a scripted broker and a real pion "
             "client in the harness: poll transport error / 500 / malformed / empty / error status / oversized; offer undecodable / "
             "type-confused / garbage SDP / wrong type; /answer transport error / 'client gone' / 500 / malformed; client never opens "
             "the data channel (20 s, thorough only); client connects while the relay is unreachable; client connects, exchanges data "
             "through a harness relay and ends, or stays open to fill capacity. The quick tier drives tokens.get()+runSession directly. "
             "Oracle after every outcome and quiescence: tokens.count() and the number of tokens taken both equal the harness' model "
             "of open sessions (each slot released exactly once); polls report a multiple of 8 not above the slots in use; at capacity "
             "another slot cannot be taken until a session ends, and then can; at the end the count is back to idle. Non-trivial = "
             ">= 2 different failing exit paths and a success, or a sequence that reaches capacity. c16_load_report: capacities {unlimited, 9..40}, "
             "0-40 sessions running when a poll starts, 0-2 polls answered 'no match' (the proxy re-polls after 5 s real time) with 0-10 sessions "
             "ending between polls; every poll must report a multiple of 8 not above the slots in use at that moment. Non-trivial = the load "
             "drops below a multiple of 8 between two polls of one session."),
    "assumptions": ["real time is used only through the stall rule (budgets of 15 s and more for steps that take milliseconds)",
                    "the simultaneous data-channel-timeout/open tie cannot be constructed in real time (DESIGN section 8)"],
    "units": [U("c16_sessions", "inpkg", "proxy/lib", "^TestVerifC16Sessions$", (40, 400), shards=(8, 16), timeout=(400, 3000)),
              U("c16_load_report", "inpkg", "proxy/lib", "^TestVerifC16LoadReport$", (6, 60), shards=(8, 16), timeout=(400, 3000))],
}
META["C16"] = {
    "level": "Sampled exploration of session-outcome sequences against the real proxy session code with real pion peers and a scripted broker; a model of open sessions is compared with the proxy's slot accounting after every outcome.",
    "note": "One proxy per test process (package globals); the WebRTC hop is real (loopback/eth0), the broker is a scripted RoundTripper, the relay a local WebSocket echo server.",
    "technique": "property-based testing (rapid): fault-sequence generation over session exit paths with a reference model of slots in use",
}
PROPS["C06"]["units"].append(U("c06_proxy_refuse", "inpkg", "proxy/lib", "^TestVerifC06ProxyRefuse$", (60, 600), shards=(4, 8), timeout=(400, 3000)))
PROPS["C06"]["rule"] += (" c06_proxy_refuse: a scripted broker hands the real proxy session code relay URLs generated from scheme x host x userinfo tricks x "
                         "port of a decoy listener x path/fragment noise x unparsable strings, under generated proxy patterns and TLS policy: for a URL "
                         "whose hostname fails the pattern or whose scheme is not wss without the non-TLS permission, no /answer may be posted, no TCP "
                         "connection may reach the decoy and the slot must be returned; an acceptable URL must be answered. Non-trivial = a URL whose "
                         "host passes and scheme fails or vice versa.")

PROPS["C01"] = {
    "rule": ("c01_transport (tier 1): one model client (real RedialPacketConn + encapsulation + websocketconn + kcp-go + smux configured "
             "as client/lib configures them, token and ClientID first) against the real snowflake_server.Transport on loopback, through a "
             "harness TCP forwarder. Generated: payload sizes {0, 1, 1399..1401, 64 Ki, 256 Ki, 1 Mi (thorough: up to 4 Mi)} and random, both "
             "directions, with generated write chunking; 0-8 carrier faults, each a cut after k upstream and/or downstream bytes (k inside "
             "the WebSocket handshake / token / ClientID / a length prefix, mid-stream, beyond the end) or after a delay, by TCP reset / clean "
             "close / freeze (client side dies at once, the server keeps the dead carrier 5-1500 ms: two carriers overlap), with dial delays "
             "and failed dials before the next carrier. Oracle: every chunk read at either end is compared with the PRNG stream of (session, "
             "direction) at the current offset (prefix rule: detects missing, duplicated, reordered, foreign bytes at the first wrong byte), "
             "both directions complete when the last carrier is healthy (stall rule: 40 s without progress, then a solitary re-run with 80 s), "
             "exactly one accepted connection. Non-trivial = at least one carrier fault and more than 3000 payload bytes. "
             "c01_system (tier 2, thorough only): the unmodified broker and proxy binaries as processes, the real client library (rendezvous, "
             "WebRTC, Peers, staleness, redial) and the real server library in the harness process, a fake RFC 5780 STUN responder, a relay "
             "forwarder and a reverse proxy in front of the broker; generated: payloads {0, 1, 50 K, 300 K, 2 Mi, 6 Mi} both ways, 1-3 proxies, "
             "max 1-2 peers, first rendezvous answer lost/delayed, 0-3 timed faults out of {SIGKILL, SIGTERM, SIGSTOP d + SIGCONT of a proxy, "
             "relay TCP cut / reset / blackhole (silently stops forwarding), broker answer lost / delayed, extra proxy, SIGSTOP of the client binary for 2-12 s}, "
             "optional first-rendezvous faults (answer lost/delayed, first relay connection blackholed, the carrying proxy SIGSTOPped before its first "
             "downstream message); in half of the cases the client and server are the unmodified binaries too (SOCKS5 port to ORPort), in a third a "
             "re-fragmenting WebSocket reverse proxy sits in front of the server; one case in ten is drawn from the scenario family 'downlink stall' "
             "(multi-MiB download, all binaries, client stopped for 7-12 s), one in ten from 'silent proxy' (the relay path of the carrying proxy "
             "blackholed once the bridge has verified a generated number of upstream bytes); faults can be byte-triggered instead of timed; a fresh proxy is always available in the end. Same byte-exact "
             "oracle; a whole-system stall (150 s without progress) is re-run alone with 300 s, and reported only if it stalls again while a "
             "fault-free canary session completes (otherwise: inconclusive, environment). Non-trivial = at least "
             "one fault and >= 300 KB of payload."),
    "assumptions": ["the WebRTC hop, Peers, staleness detection and the proxy copy loop are not in tier 1 (model client speaks WebSocket directly to the server)",
                    "a missed real-time deadline is never a violation by itself: a stall is re-run alone with a doubled budget"],
    "units": [U("c01_transport", "ext", "c01", "^TestVerifC01Transport$", (60, 1500), shards=(8, 16), timeout=(400, 3000)),
              U("c01_system", "ext", "sys", "^TestVerifC01System$", (0, 40), shards=(0, 8), timeout=(400, 3400), tiers=["thorough"])],
}
META["C01"] = {
    "level": "Sampled exploration of fault sequences and payloads: byte-exact prefix oracle on both ends of the real server transport with injected carrier faults at generated byte offsets; whole-system runs with real binaries in the thorough tier.",
    "note": "Tier 1 replaces the client's WebRTC leg by a model client assembled from the same real components (the client's session setup is mirrored, not imported, because it is unexported and tied to pion).",
    "technique": "property-based testing (rapid): fault-sequence and payload generation with a byte-exact prefix oracle (PRNG streams), stall rule for liveness",
}

PROPS["C05"] = {
    "rule": ("c05_sessions: 1-5 (quick) / 1-8 (thorough) concurrent model clients with distinct ClientIDs on one server, each with its own "
             "PRNG streams, start delay and carrier schedule of 0-4 faults (cuts at generated byte offsets, reset/close/freeze with two "
             "carriers overlapping, dial delays), a generated client_ip per carrier, plus 0-3 decoy carriers (no token, wrong token, short "
             "token, truncated ClientID, token+ID then garbage, token+ID then close). Oracle: isolation (every byte read on an accepted "
             "connection belongs to the stream of the session whose label it announced, at the right offset; every byte a client reads "
             "belongs to its own downstream stream), continuity (exactly one accepted connection per session whatever the number of "
             "carriers, both streams complete when the schedule ends healthy; stall rule), decoys are closed by the server and produce no "
             "connection, and the remote address equals the sanitised client_ip of one of the session's own carriers (exactly the first "
             "carrier's when only one was used). Non-trivial = >= 2 concurrent sessions with at least one changing carrier."),
    "assumptions": ["gaps between carriers are far below the one-minute retention (the retention edge is decided by C17 on an explicit clock)"],
    "units": [U("c05_sessions", "ext", "c05", "^TestVerifC05Sessions$", (40, 800), shards=(8, 16), timeout=(400, 3000))],
}
META["C05"] = {
    "level": "Sampled exploration of concurrent sessions with carrier churn against the real server transport; isolation and continuity are byte-exact oracles on PRNG streams keyed by session.",
    "note": "Same rig as C01 tier 1; sessions are keyed by ClientID so one listener serves all cases of a process.",
    "technique": "property-based testing (rapid): concurrent fault-schedule generation, byte-exact isolation oracle, exactly-one-accept invariant",
}

PROPS["C18"] = {
    "rule": ("c18_sanitise: client_ip strings from the structured address generator (IPv4, IPv6 in every accepted textual form, with ports, "
             "brackets, zones), IPv4-mapped, unspecified forms, whitespace, leading zeros, junk, 5 KB strings, one-character mutations; "
             "oracle: second opinion from netip.ParseAddr - empty unless a bare specified IP literal, otherwise that address with stub port 1. "
             "Non-trivial = not parseable, or IPv6. c18_ringmap: capacities 0-8, 1-60 Set/Get operations over a 6-id alphabet (incl. the "
             "all-zero id); model = the last `capacity` Set calls; after every step Get of every id must equal the model and the number of "
             "remembered ids must not exceed the capacity; production capacity spot-checked. Non-trivial = an id set twice among >= 2 ids and "
             "more operations than capacity. c18_attribution: 2-6 concurrent sessions with 1-3 carriers each carrying generated client_ip "
             "values through the real server: the accepted connection's remote address must be the sanitised client_ip of one of that "
             "session's own carriers (the first one's when a single carrier was used). c18_remoteip: the proxy's address extraction (see C13). c18_ringmap_concurrent: 1-6 goroutines calling Set (as carrier handlers do) and 1-6 calling Get (as new sessions do) on a map of capacity 1-64 with more ClientIDs than slots, so that slots are recycled all the time; every ClientID stores addresses of its own, disjoint set: a Get must return one of its own or nothing (never another session's address), and must not panic. Non-trivial = more ClientIDs than capacity."),
    "assumptions": ["with several carriers before the session is established the arrival order at the server is not observable: any of the session's own carriers' sanitised values is accepted"],
    "units": [
        U("c18_sanitise", "inpkg", "server/lib", "^TestVerifC18Sanitise$", (4000, 50000)),
        U("c18_ringmap", "inpkg", "server/lib", "^TestVerifC18RingMap$", (1500, 20000)),
        U("c18_ringmap_concurrent", "inpkg", "server/lib", "^TestVerifC18RingMapConcurrent$", (150, 1500), shards=(2, 4)),
        U("c18_attribution", "ext", "c05", "^TestVerifC18Attribution$", (150, 1200), shards=(8, 8), timeout=(400, 3000)),
        U("c18_remoteip", "inpkg", "proxy/lib", "^TestVerifC18RemoteIP$", (1500, 20000), shards=(4, 8)),
    ],
}
META["C18"] = {
    "level": "Sampled exploration: differential oracle (netip) for the sanitiser, model-based state machine for the bounded map, byte-level rig for attribution across concurrent sessions.",
    "note": "Attribution with several carriers accepts any of the session's own carriers (server-side arrival order is not observable from outside).",
    "technique": "property-based testing (rapid): differential oracle, model-based state machine, end-to-end attribution invariant",
}


def R(name, kind, pkg, run, checks, shards=(2, 4), timeout=(600, 3000), **kw):
    return U(name, kind, pkg, run, checks, shards=shards, timeout=timeout, race=True, **kw)


PROPS["C20"] = {
    "rule": ("The generated workloads of the other checks, re-run in test binaries built with -race: broker herds at timeout boundaries, "
             "wiring histories and counter bursts on the fake clock (events tied at one instant run genuinely in parallel), a real-time "
             "load of 24 concurrent proxy/client/answer triples per round through the real HTTP handlers with metrics readers in parallel, "
             "concurrent log-scrubber writers, redial/queue adapter stress, the real ClientMap with 2-6 goroutines looking queues up while "
             "its sweeper wakes every 1-20 ms and expires one-shot clients, multi-session carrier churn through the real server (server, "
             "QueuePacketConn, ClientMap, websocketconn), the client's Peers machine and failing rendezvous with real pion, and proxy session "
             "sequences with real pion, the proxy's periodic summary logger fed by 1-12 session goroutines through the shared event "
             "dispatcher while its timer ticks every millisecond (also judged by conservation: the summary lines account for exactly the sessions that ended); thorough tier: the whole-system unit with the broker and proxy binaries built with -race (their own "
             "reports are collected) and the client and server libraries race-checked inside the harness process under real proxy churn. Oracle: the happens-before race detector; a report counts when both conflicting accesses are in "
             "non-test code of the repository or its dependencies (harness goroutines are excluded by stack inspection); reports are grouped "
             "by the unordered pair of source locations. Non-trivial = a workload case in which >= 2 goroutines were inside the component "
             "(the non-trivial rules of the source units; for the real-time load: >= 2 requests in flight)."),
    "assumptions": ["the detector sees only the schedules that ran; absence of a report is not absence of a race"],
    "units": [
        R("c20_broker_herds", "inpkg", "broker", "^TestVerifC04Herds$", (60, 600)),
        R("c20_broker_wiring", "inpkg", "broker", "^TestVerifC02Wiring$", (60, 600)),
        R("c20_broker_counters", "inpkg", "broker", "^TestVerifC19Counters$", (40, 400)),
        R("c20_broker_load", "inpkg", "broker", "^TestVerifC20BrokerLoad$", (1, 1), shards=(2, 4)),
        R("c20_broker_concurrent", "inpkg", "broker", "^TestVerifC14Concurrent$", (12, 120), shards=(2, 4)),
        R("c20_safelog", "ext", "c07", "^TestVerifC07Concurrent$", (100, 1000)),
        R("c20_adapters", "ext", "c17", "^TestVerifC17(Redial|Queue)$", (100, 1000)),
        R("c20_clientmap", "inpkg", "common/turbotunnel", "^TestVerifC(20ClientMap|17ClientMapRealTime)$", (1, 1), shards=(2, 4)),
        R("c20_server", "ext", "c05", "^TestVerifC05Sessions$", (12, 150), shards=(3, 6)),
        R("c20_ringmap", "inpkg", "server/lib", "^TestVerifC18RingMapConcurrent$", (60, 600)),
        R("c20_peers", "inpkg", "client/lib", "^TestVerifC15(Peers|Rendezvous)$", (40, 400)),
        R("c20_proxy", "inpkg", "proxy/lib", "^TestVerifC16Sessions$", (15, 150)),
        R("c20_eventlogger", "inpkg", "proxy/lib", "^TestVerifC20EventLogger$", (60, 600)),
        R("c20_system", "ext", "sys", "^TestVerifC01System$", (0, 20), shards=(0, 4), timeout=(400, 3400), tiers=["thorough"], env={"VERIF_SYS_RACE": "1"}),
    ],
}
META["C20"] = {
    "level": "Schedule exploration by load: the other checks' generators drive the components under the happens-before race detector; races are attributed to source-location pairs.",
    "note": "Only executed schedules are judged; the harness' own goroutines are kept race-free and excluded by stack inspection.",
    "technique": "generated concurrent workloads (rapid) under the Go race detector as oracle",
}

# native fuzz targets (thorough tier only; the oracle is inside each target)
PROPS["C09"]["units"].append(F("c09_fuzz_stream", "c09", "FuzzC09Stream", 90))
PROPS["C09"]["units"].append(F("c09_fuzz_rapid", "c09", "FuzzC09Rapid", 60))
PROPS["C07"]["units"].append(F("c07_fuzz_rapid", "c07", "FuzzC07Rapid", 90))
PROPS["C07"]["units"].append(F("c07_fuzz_bytes", "c07", "FuzzC07Bytes", 90))
PROPS["C07"]["units"].append(U("c07_binaries", "ext", "c07bin", "^TestVerifC07Binaries$", (1, 1), shards=(3, 3), timeout=(400, 1200)))
PROPS["C07"]["rule"] += (" c07_binaries: the proxy, client and server binaries started in the logging configurations an operator may use "
                         "(proxy: -verbose x -log; client: stderr / -log / -log-to-state-dir; server: stderr / -log; never -unsafe-logging) against "
                         "loopback ports that refuse connections (and, for client and server, one SOCKS connection / one WebSocket request with a "
                         "client_ip), so that they log error lines carrying addresses; log file and stderr are scanned with the same survivor rule as "
                         "c07_system. The nine configurations are enumerated completely in every run (spread over three processes; four rounds in the thorough tier). Non-trivial = a configuration with a log file or -verbose; counters report lines scanned and placeholders seen.")
PROPS["C07"]["units"].append(U("c07_system", "ext", "sys", "^TestVerifC01System$", (0, 30), shards=(0, 4), timeout=(400, 1500),
                               tiers=["thorough"], env={"VERIF_SYS_PURPOSE": "c07"}))
PROPS["C07"]["rule"] += (" c07_system (thorough): the whole-system tier's generated fault schedules (see C01) with all four unmodified "
                         "binaries logging to files without -unsafe-logging; after every case the appended complete log lines are scanned: "
                         "a maximal run of address characters that as a whole parses as IP, IP:port, [IP] or [IP]:port (net.ParseIP / "
                         "net.SplitHostPort) and is not glued to a word is a survivor. Non-trivial = a case in all-binaries mode or with at "
                         "least one fault (these produce SOCKS/ORPort/dial-error lines carrying addresses); counters report lines scanned "
                         "and placeholders seen.")
PROPS["C08"]["units"].append(F("c08_fuzz_rapid", "c08", "FuzzC08Rapid", 60))
PROPS["C08"]["units"].append(F("c08_fuzz_text", "c08", "FuzzC08Text", 90))
PROPS["C10"]["units"].append(F("c10_fuzz_decoder", "c10", "FuzzC10Decoder", 90))
PROPS["C10"]["units"].append(F("c10_fuzz_rapid", "c10", "FuzzC10Rapid", 60))
PROPS["C12"]["units"].append(F("c12_fuzz_decoders", "c12", "FuzzC12Decoders", 90))
PROPS["C12"]["units"].append(F("c12_fuzz_rapid", "c12", "FuzzC12Rapid", 60))
PROPS["C13"]["units"].append(F("c13_fuzz_deserialize", "c13", "FuzzC13Deserialize", 90))

PROPS["C11"]["units"].append(U("c11_client_exchange", "inpkg", "client/lib", "^TestVerifC11ClientExchange$", (600, 6000), timeout=(300, 3000)))
PROPS["C11"]["rule"] += (" c11_client_exchange: the client's HTTP and AMP rendezvous exchanges against a recording RoundTripper: broker/front/cache "
                         "combinations, scripted status {200, 204, 3xx, 4xx, 5xx}, Location header on a 200 (AMP), HTTP bodies of 0 / 99 999 / 100 000 / "
                         "100 001 / 100 002 / 1 MiB bytes, AMP documents whose length is steered to the limit -3..+20, cut inside the trailer, or "
                         "re-flowed by a cache into short pre elements of whole base64 quanta with an element boundary exactly at the limit. Oracle: "
                         "request shape (POST .../client with the poll; GET with the poll in the path, under the cache host), metamorphic fronting rule "
                         "(with a front only URL.Host changes and the Host header names the unfronted host), and (data, nil) only for status 200 "
                         "without silent redirect and a body within 100 000 bytes - then data is the whole payload; every other response is an error, "
                         "never truncated data. Non-trivial = size within +-1..20 of the limit or a non-200 status.")
