#!/usr/bin/env python3
"""Regenerates /verif/MANIFEST.json from lib/units.py (run after editing units.py)."""
import json, os, sys
VERIF = os.path.dirname(os.path.dirname(os.path.abspath(__file__)))
sys.path.insert(0, os.path.join(VERIF, "lib"))
from units import PROPS, META

props = [json.loads(l)["id"] for l in open(os.path.join(VERIF, "properties.jsonl"))]
checks, na = [], []
for p in props:
    if p in PROPS and PROPS[p]["units"]:
        m = META[p]
        c = {"property_id": p,
             "quick_cmd": "./check %s quick" % p,
             "thorough_cmd": "./check %s thorough" % p,
             "evidence_file": "/verif/evidence/%s.json" % p,
             "replay_cmd_template": "./check %s --replay {path}" % p,
             "engine": "rapid-pbt",
             "level_claimed": {"category": "exploration", "text": m["level"], "design_ref": "DESIGN.md section 6, " + p},
             "level_note": m["note"],
             "technique": m["technique"]}
        checks.append(c)
    else:
        na.append({"property_id": p, "reason": META.get(p, {}).get("na", "check not built yet in this session; planned design in DESIGN.md section 6")})
man = {
 "version": 1,
 "setup_cmd": "./check --setup",
 "hooks": {"guard": "verif",
           "enable": "no source hooks: harness test files are injected at build time with 'go test -overlay/-modfile' (DESIGN.md 3.2); the guard tag 'verif' is reserved and unused",
           "baseline_off_cmd": "cd /repo && GOFLAGS=-mod=mod go test -json -vet=off -count=1 -timeout 25m ./...",
           "source_commits": [], "add_only": True},
 "engines": [
  {"name": "rapid-pbt", "path": "/verif/check", "serves_properties": [c["property_id"] for c in checks],
   "kind_free_text": "python driver building Go test binaries (go1.26.8) from /repo's working tree: pgregory.net/rapid v1.3.0 generators + explicit oracles, testing/synctest fake clock, Go native fuzzing in the thorough tier, Go race detector for C20; statistics and replay files via harness/vstat"}],
 "checks": checks,
 "not_applicable": na,
 "notes": "Fix commits in /repo are listed in known_findings.json (status fixed). Found replay files are written under /verif/build/found/<ID>/; committed regression cases live in /verif/replays/<ID>/ and run first in both tiers."
}
json.dump(man, open(os.path.join(VERIF, "MANIFEST.json"), "w"), indent=1)
print("MANIFEST.json: %d checks, %d not_applicable" % (len(checks), len(na)))
