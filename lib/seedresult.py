#!/usr/bin/env python3
"""usage: seedresult.py <seed-id> <caught|missed> <tier> <text>  -- records what the /verif checks did with a seeded change."""
import json,sys
sid,verdict,tier,text=sys.argv[1:5]
p='/verif/seeded/%s/meta.json'%sid
m=json.load(open(p))
m.setdefault('verif_results',[]).append({"verdict":verdict,"tier":tier,"detail":text})
json.dump(m,open(p,'w'),indent=1)
print("recorded",sid,verdict)
