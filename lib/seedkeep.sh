#!/bin/bash
# usage: lib/seedkeep.sh <worktree> <seed-id> <PROP> <pkgdir> <run-regex> [go-binary] -- confirm the demonstration in the
# sub-agent's own scratch worktree (fails with the change, passes without), then store patch+demo+meta under /verif/seeded/<id>/.
wt=$1; id=$2; prop=$3; pkg=$4; run=$5; gobin=${6:-go}
export GOFLAGS=-mod=mod GOPROXY=off GOSUMDB=off GOTOOLCHAIN=local
cd $wt || exit 2
git checkout -q -- . ; git apply seed.patch || exit 2
cp demo/*_test.go $pkg/ 2>/dev/null
$gobin test -vet=off -count=1 -ldflags=-checklinkname=0 -run "$run" ./$pkg/ > /tmp/seedkeep.with.out 2>&1; rcw=$?
git checkout -q -- .
$gobin test -vet=off -count=1 -ldflags=-checklinkname=0 -run "$run" ./$pkg/ > /tmp/seedkeep.without.out 2>&1; rco=$?
for f in demo/*_test.go; do rm -f $pkg/$(basename $f); done
echo "demo with change: rc=$rcw ; without change: rc=$rco"
tail -3 /tmp/seedkeep.with.out; tail -2 /tmp/seedkeep.without.out
if [ $rcw -eq 0 ] || [ $rco -ne 0 ]; then echo "NOT CONFIRMED"; exit 1; fi
d=/verif/seeded/$id; mkdir -p $d/demo
cp seed.patch $d/patch.diff; cp -r demo/* $d/demo/
python3 - "$wt" "$d" "$prop" "$pkg" "$run" "$gobin" <<'PY'
import json,sys
wt,d,prop,pkg,run,gobin=sys.argv[1:]
m=json.load(open(wt+'/meta.json'))
out={"property":prop,"summary":m.get("summary"),"needs":m.get("needs"),"files":m.get("files"),
 "confirmed_by_me":["in scratch worktree %s: %s test -vet=off -count=1 -ldflags=-checklinkname=0 -run '%s' ./%s/ with patch applied -> FAIL; with source reverted -> PASS"%(wt,gobin,run,pkg)],
 "subagent_ran":m.get("ran")}
json.dump(out,open(d+'/meta.json','w'),indent=1)
PY
echo "kept in $d"
